"""Executable reference model of the snapshot categories (DESIGN 2.5).

Written from docs/categories.md, docs/pytest.md and the property statements - not from the
implementation.  It never predicts text: the value currently in the source (``src``) is obtained
by evaluating the argument text found on disk.
"""
import copy

MISSING = type("Missing", (), {"__repr__": lambda s: "MISSING", "__deepcopy__": lambda s, m: s, "__copy__": lambda s: s})()


def meq(a, b):
    try:
        return bool(a == b)
    except Exception:
        return False


def contains(seq, x):
    return any(meq(e, x) for e in seq)


class SiteModel:
    """one call site (or one sub-snapshot): kind, src, observations"""

    def __init__(self, src=MISSING):
        self.src = src
        self.kind = None  # eq le ge in item
        self.obs = []  # deep copies taken at event time
        self.child_keys = []  # item: accessed keys (access order) ...
        self._children = []  # ... and their sub-snapshot models
        self.contradictory = False
        self.raised = False  # a comparison on this site raised / misused (exempt from value prediction)
        self.mixed_ops = False

    # ------------------------------------------------------------ observation
    def child(self, key):
        for k, c in zip(self.child_keys, self.children_list()):
            if meq(k, key):
                return c
        if self.src is MISSING:
            c = SiteModel(MISSING)
        else:
            try:
                c = SiteModel(self.src[key]) if key in self.src else SiteModel(MISSING)
            except Exception:
                c = SiteModel(MISSING)
        self.child_keys.append(copy.deepcopy(key))
        self._children.append(c)
        return c

    def children_list(self):
        return self._children

    def set_kind(self, kind):
        if self.kind is None:
            self.kind = kind
            return True
        if self.kind != kind:
            self.mixed_ops = True
            return False
        return True

    def plain(self, kind, x):
        """answer of plain Python on the value in the source (may raise)"""
        s = self.src
        if kind == "eq":
            return bool(x == s)
        if kind == "le":
            return bool(x <= s)
        if kind == "ge":
            return bool(x >= s)
        if kind == "in":
            return bool(x in s)
        raise ValueError(kind)

    def observe(self, kind, x, succeed_mode):
        """-> answer: True/False or 'E:<Type>'.  succeed_mode: create/fix/update approved or review."""
        if not self.set_kind(kind):
            return "E:TypeError"
        xc = copy.deepcopy(x)
        if kind == "eq":
            if self.obs and not meq(self.obs[0], xc):
                self.contradictory = True
            self.obs.append(xc)
        else:
            self.obs.append(xc)
        if self.src is MISSING:
            if kind == "eq":
                return meq(self.obs[0], x)
            return True
        if succeed_mode:
            if kind == "eq":
                return meq(self.obs[0], x)
            return True
        try:
            return self.plain(kind, x)
        except Exception as e:
            self.raised = True
            return "E:" + type(e).__name__

    # ------------------------------------------------------------ aggregate
    def aggregate(self):
        """value a fresh snapshot would get from the observations"""
        if self.kind == "eq":
            return self.obs[0]
        if self.kind == "le":
            return max(self.obs)
        if self.kind == "ge":
            return min(self.obs)
        if self.kind == "in":
            out = []
            for x in self.obs:
                if not contains(out, x):
                    out.append(x)
            return out
        if self.kind == "item":
            return {k: c.aggregate() for k, c in zip(self.child_keys, self.children_list()) if c.kind is not None}
        raise ValueError(self.kind)

    def pending(self):
        """set of categories (without 'update', which is text-level) pending on this site"""
        try:
            return self._pending()
        except Exception:
            # values that cannot be compared with each other (out of the statement's scope): the site is exempt
            self.raised = True
            return set()

    def _pending(self):
        if self.kind is None:
            return set()
        if self.src is MISSING:
            if self.kind == "item" and not any(c.kind is not None for c in self.children_list()):
                return set()
            return {"create"}
        out = set()
        if self.kind == "eq":
            if not meq(self.src, self.obs[0]):
                out.add("fix")
        elif self.kind in ("le", "ge"):
            ext = self.aggregate()
            holds = (self.src >= ext) if self.kind == "le" else (self.src <= ext)
            if not holds:
                out.add("fix")
            elif not meq(self.src, ext):
                out.add("trim")
        elif self.kind == "in":
            if any(not contains(self.src, x) for x in self.obs):
                out.add("fix")
            if any(not contains(self.obs, e) for e in self.src):
                out.add("trim")
        elif self.kind == "item":
            for k in self.src:
                if not contains(self.child_keys, k):
                    out.add("trim")
            for k, c in zip(self.child_keys, self.children_list()):
                if c.kind is None:
                    continue
                if c.src is MISSING:
                    out.add("create")
                else:
                    out |= c._pending()
        return out

    def after(self, approved):
        """value in the source after a session that approved `approved` (MISSING stays MISSING unless created)"""
        try:
            return self._after(approved)
        except Exception:
            self.raised = True
            raise

    def _after(self, approved):
        if self.kind is None:
            return self.src
        if self.src is MISSING:
            if "create" in approved and (self.kind != "item" or any(c.kind is not None for c in self.children_list())):
                return self.aggregate()
            return MISSING
        if self.kind == "eq":
            if "fix" in approved and not meq(self.src, self.obs[0]):
                return self.obs[0]
            return self.src
        if self.kind in ("le", "ge"):
            p = self._pending()
            if ("fix" in p and "fix" in approved) or ("trim" in p and "trim" in approved):
                return self.aggregate()
            return self.src
        if self.kind == "in":
            out = list(self.src)
            if "trim" in approved:
                out = [e for e in out if contains(self.obs, e)]
            if "fix" in approved:
                for x in self.obs:
                    if not contains(self.src, x) and not contains(out, x):
                        out.append(x)
            return out
        if self.kind == "item":
            out = {}
            for k, v in self.src.items():
                if contains(self.child_keys, k):
                    c = self.children_list()[[i for i, kk in enumerate(self.child_keys) if meq(kk, k)][0]]
                    out[k] = c._after(approved) if c.kind is not None else v
                elif "trim" not in approved:
                    out[k] = v
            if "create" in approved:
                for k, c in zip(self.child_keys, self.children_list()):
                    if c.src is MISSING and c.kind is not None:
                        out[k] = c.aggregate()
            return out
        raise ValueError(self.kind)

    def exempt(self):
        if self.contradictory or self.raised or self.mixed_ops:
            return True
        return any(c.exempt() for c in self.children_list())


def value_equal(kind, a, b):
    """equality the oracles use when comparing a value read from disk with the model's"""
    if a is MISSING or b is MISSING:
        return a is b
    if kind == "in":
        try:
            return all(contains(b, x) for x in a) and all(contains(a, x) for x in b) and len(a) == len(b)
        except Exception:
            return False
    return meq(a, b) and meq(b, a)


class SessionModel:
    """runs the scripted events of a program against per-site models"""

    def __init__(self, src_values, site_ops, approved=(), review=False, active=True):
        """src_values: {sid: python value | MISSING}; site_ops: {sid: eq|le|ge|in|item}"""
        self.site_ops = dict(site_ops)
        self.sites = {sid: SiteModel(v) for sid, v in src_values.items()}
        self.approved = set(approved)
        self.active = active
        self.review = review
        self.succeed = active and (review or bool(self.approved & {"create", "fix", "update"}))
        self.answers = {}  # eid -> [answer...]
        self.test_bad = {}  # test key -> bool (executed a missing or plainly-false snapshot)
        self.test_aborted = {}
        self.test_raised = {}
        self.reached = set()  # sids reached

    def run(self, events, evalv, ns=None):
        """events: [(file, test, event)] in schedule order; evalv(value_tree) -> python object.
        ns: mutable dict for bind/mutate events"""
        ns = ns if ns is not None else {}
        aborted = set()
        for fn, tn, e in events:
            tk = (fn, tn)
            if tn is not None:
                self.test_bad.setdefault(tk, False)
                self.test_aborted.setdefault(tk, False)
                self.test_raised.setdefault(tk, False)
            if tk in aborted:
                continue
            t = e["t"]
            if t == "raise":
                aborted.add(tk)
                self.test_raised[tk] = True
                self.test_aborted[tk] = True
                continue
            if t == "bind":
                ns[e["var"]] = evalv(e["val"])
                continue
            if t == "mutate":
                try:
                    exec(e["how"].format(var=e["var"]), {}, ns)
                except Exception:
                    # the statement raises in the real test as well: the rest of that test does not run
                    aborted.add(tk)
                    self.test_raised[tk] = True
                    self.test_aborted[tk] = True
                continue
            if t in ("setg", "stmt"):
                continue
            if t != "cmp":
                raise ValueError(t)
            site = self.sites[e["site"]]
            if "var" in e:
                xs = [ns[e["var"]]]
            else:
                xs = [evalv(v) for v in e["vals"]]
            for x in xs:
                ans = self.step(site, e, x, evalv)
                self.answers.setdefault(e["eid"], []).append(ans)
                self.reached.add(e["site"])
                if tn is not None and self._bad:
                    self.test_bad[tk] = True
                if e.get("style", "assert") == "assert" and ans is not True:
                    aborted.add(tk)
                    self.test_aborted[tk] = True
                    break
        return self

    def step(self, site, e, x, evalv):
        """one comparison; sets self._bad when it touched a missing or plainly-false snapshot"""
        self._bad = False
        kind = self.site_ops[e["site"]]
        if not self.active:
            # plain python on the source value; a missing value raises AssertionError at the call
            if site.src is MISSING:
                self._bad = True
                return "E:AssertionError"
            target = site
            if kind == "item":
                key = evalv(e["key"])
                try:
                    child_src = site.src[key]
                except Exception as ex:
                    return "E:" + type(ex).__name__
                target = SiteModel(child_src)
                kind = e.get("cop", "eq")
            try:
                r = target.plain(kind, x)
            except Exception as ex:
                return "E:" + type(ex).__name__
            if not r:
                self._bad = True
            return r
        if kind == "item":
            if not site.set_kind("item"):
                return "E:TypeError"
            key = evalv(e["key"])
            c = site.child(key)
            if site.src is MISSING:
                self._bad = True
            if e.get("access_only"):
                # the sub-snapshot is fetched but nothing is compared with it: the key counts as accessed
                return True
            ck = e.get("cop", "eq")
            return self._observe(c, ck, x)
        return self._observe(site, kind, x)

    def _observe(self, s, kind, x):
        if s.src is MISSING:
            self._bad = True
        else:
            try:
                if not s.plain(kind, x):
                    self._bad = True
            except Exception:
                pass
        return s.observe(kind, x, self.succeed)
