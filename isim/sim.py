"""Glue used by all property modules: sessions over a durable file map, site lookup, formatter config."""
import os

from . import drivers
from .gen import program as P
from .world import HarnessError, read_tree, reset_tree

FMT_CMD = "isim-format-stub {filename}"


def to_text(files):
    return {k: (v.decode("utf-8") if isinstance(v, bytes) else v) for k, v in files.items()}


def to_bytes(files):
    return {k: (v.encode("utf-8") if isinstance(v, str) else v) for k, v in files.items()}


def pyproject_for(fmt=None, tool=None, black=None):
    """pyproject.toml text for a formatter state / inline-snapshot options / black options"""
    lines = []
    tool = dict(tool or {})
    if fmt and fmt.get("kind") == "cmd":
        tool["format-command"] = FMT_CMD
    if tool:
        lines.append("[tool.inline-snapshot]")
        for k, v in tool.items():
            lines.append(f"{k} = {toml_value(v)}")
        lines.append("")
    if black:
        lines.append("[tool.black]")
        for k, v in black.items():
            lines.append(f"{k} = {toml_value(v)}")
        lines.append("")
    return "\n".join(lines)


def toml_value(v):
    if isinstance(v, bool):
        return "true" if v else "false"
    if isinstance(v, int):
        return str(v)
    if isinstance(v, str):
        return '"' + v.replace("\\", "\\\\").replace('"', '\\"') + '"'
    if isinstance(v, list):
        return "[" + ", ".join(toml_value(x) for x in v) + "]"
    if isinstance(v, dict):
        return "{" + ", ".join(f"{k} = {toml_value(x)}" for k, x in v.items()) + "}"
    raise ValueError(v)


def _log_session(ctx, driver, spec, new, res):
    from .world import sha

    ctx.log.append({
        "driver": driver, "flags": spec.get("flags"), "env": spec.get("env"), "fmt": spec.get("fmt"), "plan": spec.get("plan"),
        "status": res.get("status"), "rc": res.get("rc"), "exc": res.get("exc"),
        "finish_exc": bool(res.get("finish_exc")), "main_exc": bool(res.get("main_exc")),
        "categories": res.get("categories"), "rec": res.get("rec"), "asked": res.get("asked"),
        "tests": {k: [v.get("setup"), v.get("call"), v.get("teardown")] for k, v in (res.get("tests") or {}).items()} if driver == "plugin" else res.get("tests"),
        # reads are logged as a multiset: the library iterates a *set* of file names (files_with_snapshots), so their order
        # follows the interpreter's hash seed (the same holds for the unlink calls over the set of unused externals); other mutating calls are logged in order
        "reads": sorted([t[1], t[2]] for t in (res.get("trace") or []) if t[1] in ("read_text", "read_bytes", "exists", "glob", "iterdir", "unlink")),
        "trace": [[t[1], t[2]] for t in (res.get("trace") or []) if t[1] not in ("read_text", "read_bytes", "exists", "glob", "iterdir", "unlink")],
        "files": {k: sha(v)[:12] for k, v in sorted(new.items()) if k != "simlib.py"},
    })


def sync_tree(ctx, tree):
    """persistent world: the directory (incl. __pycache__) survives between the sessions of one history.  Files are brought to the
    given content without touching the others, then the *simulated clock* is applied: every source file gets the mtime of this
    logical step (one hour per session, far in the past), so that .pyc validation (int(mtime), size) never depends on how many
    real seconds passed between two simulated sessions; whatever a session writes carries the real clock, i.e. another mtime."""
    import os

    from .world import read_tree, write_tree

    os.makedirs(ctx.world, exist_ok=True)
    cur = read_tree(ctx.world)
    for k in cur:
        if k not in tree:
            os.unlink(os.path.join(ctx.world, k))
    written = {k: v for k, v in tree.items() if cur.get(k) != v}
    write_tree(ctx.world, written)
    step = getattr(ctx, "clock_step", 0) + 1
    ctx.clock_step = step
    t = 1_500_000_000 + 3600 * step
    for k in written:  # what the user (the harness) wrote in this step carries this step's time
        os.utime(os.path.join(ctx.world, k), (t, t))


def normalise_clock(ctx):
    """after a session: whatever the session wrote carries the real clock; map it to the logical time of this step (distinct from
    every time the harness assigns), so that two simulated sessions inside one real second cannot collide.  A file whose mtime the
    session did NOT move keeps its old logical time - that is observable behaviour of the system under test, not of the harness."""
    import os

    t = 1_500_000_000 + 3600 * getattr(ctx, "clock_step", 0) + 1800
    for dirpath, dirnames, filenames in os.walk(ctx.world):
        if "__pycache__" in dirpath:
            continue
        for fn in filenames:
            p = os.path.join(dirpath, fn)
            if os.stat(p).st_mtime > 1_600_000_000:
                os.utime(p, (t, t))


def run_session(ctx, driver, files, spec, timeout=60.0):
    """files: durable state {relpath: bytes|str}.  -> (new_files (bytes), result)"""
    new, res = _run_session(ctx, driver, files, spec, timeout)
    k = (spec.get("fmt") or {}).get("kind", "black")
    if k != "black":
        # injected formatter states count as faults / stubs that really ran (one per session they were active in)
        ctx.fired("formatter_state:" + (k if k != "cmd" else "cmd:" + spec["fmt"].get("stub", "black")))
    if (spec.get("fmt") or {}).get("exit1_partial_at"):
        ctx.fired("formatter_fault:exit1-after-partial-output")
    if (spec.get("fmt") or {}).get("locale"):
        ctx.fired("env_seam:locale-encoding-not-utf8")
    if spec.get("env"):
        for name in spec["env"]:
            ctx.fired("env_seam:" + ("CI-variable" if name in drivers.CI_VARS else name))
    if spec.get("xdist"):
        ctx.fired("xdist_workers")
    _log_session(ctx, driver, spec, new, res)
    return new, res


def _run_session(ctx, driver, files, spec, timeout=60.0):
    files = to_bytes(files)
    if driver == "plugin":
        # "$W" in a file stands for the absolute path of the world directory (absolute storage-dir etc.);
        # it is substituted on the way in and out so that logs and digests do not depend on the scratch path
        wb = ctx.world.encode()
        tree = {k: (v.replace(b"$W", wb) if k.endswith(".toml") else v) for k, v in files.items()}
        if getattr(ctx, "persistent", False) and "persistent" not in spec:
            # multi-session histories run over one persistent directory with the bytecode caches switched on
            spec = dict(spec, persistent=True, bytecode=True)
        if spec.get("persistent"):
            sync_tree(ctx, tree)
        else:
            reset_tree(ctx.world, tree)
        res = drivers.run_plugin(ctx.world, spec, ctx.scratch, timeout)
        if spec.get("persistent"):
            normalise_clock(ctx)
        new = {k: (v.replace(wb, b"$W") if k.endswith(".toml") else v) for k, v in read_tree(ctx.world).items()}
        if res.get("out"):
            res["out"] = res["out"].replace(ctx.world, "$W")
        ctx.session(res)
        return new, res
    if driver == "inline":
        tests = {k: v.decode("utf-8") for k, v in files.items() if k.endswith(".py") and k != "simlib.py" and "/" not in k}
        spec = dict(spec)
        if spec.get("with_pyproject") and "pyproject.toml" in files:
            tests["pyproject.toml"] = files["pyproject.toml"].decode("utf-8")  # the example project carries its [tool.black] options
        if (spec.get("fmt") or {}).get("kind") == "cmd":
            cfg = dict(spec.get("config") or {})
            cfg["format_command"] = FMT_CMD
            spec["config"] = cfg
        res = drivers.run_inline(tests, spec, ctx.scratch, timeout)
        ctx.session(res)
        new = dict(files)
        if res.get("files_b") is not None:
            # raw bytes of the session's directory (keeps the line ends the library wrote)
            for k, v in res.pop("files_b").items():
                if k in tests:
                    new[k] = v.encode("latin-1")
        elif res.get("files") is not None:
            for k, v in res["files"].items():
                if k in tests:
                    new[k] = v.encode("utf-8")
        return new, res
    if driver == "cold":
        reset_tree(ctx.world, files)
        res = drivers.run_cold(ctx.world, spec, timeout=max(timeout, 120))
        new = read_tree(ctx.world)
        ctx.session(res)
        return new, res
    raise ValueError(driver)


def readback(ctx, files, spec=None, timeout=60.0):
    res = drivers.run_readback(to_bytes(files), spec or {}, ctx.scratch, timeout)
    ctx.sessions += 1
    if res.get("status") == "timeout":
        raise HarnessError("read-back timed out")
    if res.get("status") != "ok":
        raise HarnessError(f"read-back child died: {res.get('status')}\n{res.get('out', '')[-1500:]}")
    ctx.log.append({"driver": "readback", "tests": res.get("tests"), "rec": res.get("rec"), "import_exc": res.get("import_exc")})
    return res


class SiteMismatch(SyntaxError):
    pass


def site_map(files, orders):
    """{(filename, sid): SiteCall} from the current texts; raises SyntaxError if a file does not parse"""
    out = {}
    for fn, order in orders.items():
        text = files[fn]
        if isinstance(text, bytes):
            text = text.decode("utf-8")
        calls = P.find_sites(text)
        if len(calls) != len(order):
            # a rewrite never adds or removes an outermost snapshot() call: a file where it did is as broken as one that does not parse
            raise SiteMismatch(f"{fn}: expected {len(order)} outermost snapshot() calls, found {len(calls)}")
        for sid, c in zip(order, calls):
            out[(fn, sid)] = c
    return out


def session_completed(driver, res):
    """did collecting / reporting / applying finish without an internal error?"""
    if res.get("status") != "ok":
        return False
    if driver == "plugin":
        return res.get("finish_exc") is None and res.get("main_exc") is None and "INTERNALERROR" not in res.get("out", "")
    if driver == "inline":
        return res.get("exc") is None
    return True


def rec_by_eid(rec):
    d = {}
    for eid, v in rec:
        d.setdefault(eid, []).append(v)
    return d


def exc_signature(tb):
    """'<ExcType>@<innermost inline_snapshot function>' from a traceback text"""
    import re

    tb = tb or ""
    m = re.findall(r'File "[^"]*inline_snapshot/([^"]+)", line \d+, in (\w+)', tb)
    last = tb.strip().splitlines()[-1] if tb.strip() else ""
    et = re.match(r"([A-Za-z_.]+)", last)
    name = et.group(1).split(".")[-1] if et else "Exception"
    where = f"{m[-1][0].split('/')[-1]}:{m[-1][1]}" if m else "?"
    return f"{name}@{where}"


def completion_violation(driver, res, context=""):
    """a session with approved changes that dies in session-finish applies nothing: for the properties that speak about the
    outcome of such a run this is a violation of theirs as well (not only of C18)"""
    if driver == "plugin":
        tb = res.get("finish_exc") or res.get("main_exc")
        if tb is None:
            tb = "\n".join(l for l in res.get("out", "").splitlines() if "INTERNALERROR" in l)[-3000:] or f"status={res.get('status')} rc={res.get('rc')}"
    else:
        tb = res.get("exc_tb") or str(res.get("exc")) or f"status={res.get('status')}"
    return {"clause": "session-completes", "sig": "session-died:" + exc_signature(tb), "detail": f"{context} driver={driver}: the session did not complete, nothing it approved was applied\n{tb[-1800:]}"}
