"""Seeded search: shard run seeds over warm worker interpreters, collect violations, minimise,
verify replay, match against known findings, write evidence.

exit codes of a check: 0 held (possibly KNOWN-FINDING lines), 1 VIOLATION, 2 harness error.
"""
import hashlib
import importlib
import json
import os
import shutil
import subprocess
import sys
import time
import traceback

from . import prng
from .world import HarnessError, scratch_dir

VERIF = os.path.dirname(os.path.dirname(os.path.abspath(__file__)))
PY = sys.executable
DEFAULT_SEED = {"quick": 20260926, "thorough": 20260927}


def load_prop(pid):
    return importlib.import_module(f"isim.props.{pid.lower()}")


def canon(obj):
    return json.dumps(obj, sort_keys=True, ensure_ascii=True, separators=(",", ":"))


def digest(obj):
    return hashlib.sha256(canon(obj).encode()).hexdigest()[:20]


class Ctx:
    """what a property's execute() gets: a private scratch directory and counters"""

    def __init__(self, scratch):
        self.scratch = scratch
        self.world = os.path.join(scratch, "world")
        self.stats = {}
        self.sessions = 0
        self.seam_events = 0
        self.faults_fired = {}
        self.log = []  # canonical event log of the run (digest = determinism witness)

    def count(self, key, n=1):
        self.stats[key] = self.stats.get(key, 0) + n

    def fired(self, kind, n=1):
        self.faults_fired[kind] = self.faults_fired.get(kind, 0) + n

    def session(self, res):
        """account a session result (from a driver)"""
        self.sessions += 1
        self.seam_events += len(res.get("trace") or [])
        for f in res.get("fired") or []:
            self.fired(str(f[-1]))
        if res.get("status") == "timeout":
            # a session that hangs is a session that did not complete: the properties decide what that means
            # (C18 and the outcome properties report it, the others discard the run); it is never a pass
            self.count("sessions_killed_by_watchdog")
        return res


def execute_case(mod, case, scratch):
    """-> outcome dict; never raises for SUT behaviour, raises HarnessError for simulator problems"""
    ctx = Ctx(scratch)
    shutil.rmtree(ctx.world, ignore_errors=True)
    out = mod.execute(case, ctx)
    out.setdefault("violations", [])
    out.setdefault("discards", {})
    out.setdefault("abstract", [])
    out.setdefault("log", [])
    out["stats"] = ctx.stats
    out["sessions"] = ctx.sessions
    out["seam_events"] = ctx.seam_events
    out["faults_fired"] = ctx.faults_fired
    out["log"] = ctx.log + out["log"]
    out["digest"] = digest(out["log"])
    return out


# ------------------------------------------------------------------ worker side


def worker_main(argv):
    import argparse

    ap = argparse.ArgumentParser()
    ap.add_argument("prop")
    ap.add_argument("--base", type=int, required=True)
    ap.add_argument("--start", type=int, required=True)
    ap.add_argument("--step", type=int, required=True)
    ap.add_argument("--count", type=int, required=True)
    ap.add_argument("--out", required=True)
    ap.add_argument("--tier", default="quick")
    ap.add_argument("--deadline", type=float, default=0.0)
    a = ap.parse_args(argv)
    from . import drivers

    mod = load_prop(a.prop)
    sc = scratch_dir(f"w{a.start}")
    import faulthandler

    faulthandler.enable()
    try:
        drivers.warm_up(sc)
        with open(a.out, "w", encoding="utf-8") as out:
            for i in range(a.start, a.count, a.step):
                if a.deadline and time.time() > a.deadline:
                    out.write(canon({"stopped_early_at": i}) + "\n")
                    break
                seed = prng.run_seed(a.base, i)
                rec = {"i": i, "seed": seed}
                try:
                    case = mod.generate(seed, a.tier)
                    if case is None:
                        rec["skipped"] = True
                    else:
                        o = execute_case(mod, case, sc)
                        rec.update({k: o[k] for k in ("violations", "discards", "abstract", "stats", "sessions", "seam_events", "faults_fired", "digest")})
                        if o["violations"] or i < 3 * a.step:
                            rec["case"] = case
                        if o.get("sample") is not None:
                            rec["sample"] = o["sample"]
                except HarnessError as e:
                    rec["harness_error"] = str(e)[-2000:]
                except Exception:
                    rec["harness_error"] = "exception in harness:\n" + traceback.format_exc()[-3000:]
                # insertion order is part of a case (the order of sites is the order they are rendered in): never sort keys here
                out.write(json.dumps(rec, ensure_ascii=True) + "\n")
                out.flush()
    finally:
        shutil.rmtree(sc, ignore_errors=True)


# ------------------------------------------------------------------ coordinator side


def run_workers(pid, base, count, jobs, tier, wall_cap, hashseed="0", extra_env=None):
    outdir = scratch_dir(f"res-{pid}")
    procs = []
    deadline = time.time() + wall_cap if wall_cap else 0.0
    env = dict(os.environ)
    env["PYTHONHASHSEED"] = str(hashseed)
    env["PYTHONPATH"] = VERIF + (os.pathsep + env["PYTHONPATH"] if env.get("PYTHONPATH") else "")
    env["PYTHONDONTWRITEBYTECODE"] = "1"
    env.update(extra_env or {})
    jobs = max(1, min(jobs, count))
    for k in range(jobs):
        out = os.path.join(outdir, f"{k}.jsonl")
        cmd = [PY, "-m", "isim.worker", pid, "--base", str(base), "--start", str(k), "--step", str(jobs), "--count", str(count),
               "--out", out, "--tier", tier, "--deadline", str(deadline)]
        errf = open(os.path.join(outdir, f"{k}.err"), "w")
        procs.append((subprocess.Popen(cmd, env=env, cwd=VERIF, stdout=errf, stderr=errf), out, errf))
    records = []
    harness_errors = []
    hard_deadline = time.time() + (wall_cap * 1.5 + 300 if wall_cap else 6 * 3600)
    for p, out, errf in procs:
        try:
            rc = p.wait(timeout=max(1, hard_deadline - time.time()))
        except subprocess.TimeoutExpired:
            p.kill()
            rc = -9
        errf.close()
        if rc != 0:
            with open(errf.name, encoding="utf-8", errors="replace") as f:
                harness_errors.append(f"worker exit {rc}: " + f.read()[-2000:])
        if os.path.exists(out):
            with open(out, encoding="utf-8") as f:
                for line in f:
                    line = line.strip()
                    if line:
                        records.append(json.loads(line))
    shutil.rmtree(outdir, ignore_errors=True)
    records.sort(key=lambda r: r.get("i", 1 << 60))
    return records, harness_errors


def load_known():
    p = os.path.join(VERIF, "known_findings.json")
    if not os.path.exists(p):
        return []
    with open(p, encoding="utf-8") as f:
        return json.load(f)["findings"]


def has_violation(outcome, clause, sig):
    return any(v["clause"] == clause and v["sig"] == sig for v in outcome["violations"])


def minimise(mod, case, clause, sig, scratch, budget=120):
    """greedy delta debugging over the property's own shrink candidates"""
    if not hasattr(mod, "shrink"):
        return case, 0
    used = 0
    improved = True
    while improved and used < budget:
        improved = False
        for cand in mod.shrink(case):
            if used >= budget:
                break
            used += 1
            try:
                o = execute_case(mod, cand, scratch)
            except Exception:
                continue
            if has_violation(o, clause, sig):
                case = cand
                improved = True
                break
    return case, used


def replay_file(path, scratch=None):
    """re-execute a replay file in this process (fresh interpreter expected); returns (reproduced, outcome)"""
    from . import drivers

    with open(path, encoding="utf-8") as f:
        rp = json.load(f)
    mod = load_prop(rp["property"])
    own = scratch is None
    sc = scratch or scratch_dir("replay")
    try:
        drivers.warm_up(sc)
        o = execute_case(mod, rp["case"], sc)
    finally:
        if own:
            shutil.rmtree(sc, ignore_errors=True)
    exp = rp["expect"]
    return has_violation(o, exp["clause"], exp["sig"]), o


def replay_in_fresh_process(path, hashseed="0"):
    env = dict(os.environ)
    env["PYTHONHASHSEED"] = str(hashseed)
    env["PYTHONPATH"] = VERIF + (os.pathsep + env["PYTHONPATH"] if env.get("PYTHONPATH") else "")
    p = subprocess.run([PY, "-m", "isim", "replay", path], env=env, cwd=VERIF, capture_output=True, text=True, timeout=1800)
    return p.returncode == 1 and "REPRODUCED" in p.stdout, p.stdout + p.stderr


def check(pid, tier="quick", seed=None, jobs=None, count=None, write_evidence=True):
    t0 = time.time()
    mod = load_prop(pid)
    seed = int(seed if seed is not None else os.environ.get("VERIF_SEED") or DEFAULT_SEED[tier])
    jobs = int(jobs or os.environ.get("VERIF_JOBS") or min(16, os.cpu_count() or 4, getattr(mod, "JOBS_CAP", 16)))
    count = int(count or os.environ.get("VERIF_COUNT") or mod.BUDGET[tier])
    wall_cap = float(os.environ.get("VERIF_WALL") or mod.WALL.get(tier, 0))
    print(f"isim check {pid} tier={tier} VERIF_SEED={seed} runs={count} jobs={jobs}", flush=True)
    records, herrs = run_workers(pid, seed, count, jobs, tier, wall_cap, hashseed=getattr(mod, "HASHSEED", "0"))
    for r in records:
        if "harness_error" in r:
            herrs.append(f"seed {r['seed']}: {r['harness_error']}")
    known = [k for k in load_known() if k["property"] == pid]
    known_sigs = {k["sig"]: k for k in known if k.get("status") == "known"}
    # ---- group violations by signature
    by_sig = {}
    evaluations = 0
    discards = {}
    abstract = set()
    stats = {}
    faults = {}
    sessions = seam_events = 0
    samples = []
    stopped_early = False
    digests = {}
    for r in records:
        if "stopped_early_at" in r:
            stopped_early = True
            continue
        if r.get("skipped") or "harness_error" in r:
            continue
        evaluations += 1
        digests[r["i"]] = r["digest"]
        for k, n in r["discards"].items():
            discards[k] = discards.get(k, 0) + n
        for k, n in r["stats"].items():
            stats[k] = stats.get(k, 0) + n
        for k, n in r["faults_fired"].items():
            faults[k] = faults.get(k, 0) + n
        sessions += r["sessions"]
        seam_events += r["seam_events"]
        abstract.update(r["abstract"])
        if "sample" in r and len(samples) < 4:
            samples.append(r["sample"])
        for v in r["violations"]:
            by_sig.setdefault((v["clause"], v["sig"]), []).append((r, v))
    outdir = os.path.join(VERIF, "out")
    os.makedirs(outdir, exist_ok=True)
    n_viol = 0
    known_lines = []
    new_lines = []
    sc = scratch_dir(f"min-{pid}")
    try:
        if by_sig:
            from . import drivers

            drivers.warm_up(sc)
        max_sigs = int(os.environ.get("VERIF_MAX_SIGS", 8))
        extra_sigs = []
        for (clause, sig), items in sorted(by_sig.items(), key=lambda kv: (kv[0][1] not in known_sigs, -len(kv[1]), kv[0])):
            r, v = items[0]
            if sig not in known_sigs and n_viol >= max_sigs:
                extra_sigs.append(f"{clause}/{sig} x{len(items)} (first seed {r['seed']})")
                continue
            if sig in known_sigs:
                known_lines.append(f"KNOWN-FINDING: property={pid} {known_sigs[sig]['what']} [sig={sig} count={len(items)} sample_seed={r['seed']}]")
                continue
            n_viol += 1
            case = r.get("case") or mod.generate(r["seed"], tier)
            if hasattr(mod, "focus"):
                # restrict the case to the fault point that produced the violation (keeps replay and minimisation cheap)
                try:
                    fc = mod.focus(case, v)
                    if fc is not None and has_violation(execute_case(mod, fc, sc), clause, sig):
                        case = fc
                except Exception:
                    pass
            # minimise the first few signatures fully; further ones get a small budget (their replay file is still verified)
            budget = int(os.environ.get("VERIF_MIN_BUDGET", getattr(mod, "MIN_BUDGET", 120))) if n_viol <= 3 else 15
            mcase, used = minimise(mod, case, clause, sig, sc, budget=budget)
            path = os.path.join(outdir, f"{pid}-{digest([clause, sig])[:10]}-seed{r['seed']}.replay.json")
            with open(path, "w", encoding="utf-8") as f:
                json.dump({"property": pid, "seed": r["seed"], "verif_seed": seed, "expect": {"clause": clause, "sig": sig},
                           "detail": v.get("detail", ""), "minimise_executions": used, "case": mcase}, f, indent=1)
            ok, txt = replay_in_fresh_process(path)
            if not ok:
                # the minimised form does not fail in a fresh process (the violation depends on something outside the case, e.g. on address-based
                # hashes): fall back to the un-minimised cases of the first occurrences - a replay file is only reported after it reproduced
                for r2, v2 in items[:3]:
                    c2 = r2.get("case") or mod.generate(r2["seed"], tier)
                    with open(path, "w", encoding="utf-8") as f:
                        json.dump({"property": pid, "seed": r2["seed"], "verif_seed": seed, "expect": {"clause": clause, "sig": sig}, "detail": v2.get("detail", ""),
                                   "minimise_executions": 0, "note": "un-minimised: the minimised form did not reproduce in a fresh process", "case": c2}, f, indent=1)
                    ok, txt2 = replay_in_fresh_process(path)
                    if ok:
                        r, v = r2, v2
                        break
            if not ok:
                herrs.append(f"violation {clause}/{sig} (seed {r['seed']}) did not reproduce from its replay file {path}:\n{txt[-1500:]}")
                n_viol -= 1
                continue
            new_lines.append((f"VIOLATION property={pid} replay={path}", f"  clause={clause} sig={sig} occurrences={len(items)} first_seed={r['seed']}\n  {v.get('detail', '')[:1500]}"))
    finally:
        shutil.rmtree(sc, ignore_errors=True)
    # every listed finding of this property gets its line (count=0: not met by the seeds of this run; the finding stays listed)
    met_sigs = {sig for (clause, sig) in by_sig}
    known_lines_all = list(known_lines)
    for sig, k in known_sigs.items():
        if sig not in met_sigs:
            known_lines_all.append(f"KNOWN-FINDING: property={pid} {k['what']} [sig={sig} count=0 (not met by the seeds of this run)]")
    for line in known_lines_all:
        print(line)
    for line, det in new_lines:
        print(line)
        print(det)
    if by_sig and extra_sigs:
        print(f"  ... and {len(extra_sigs)} further violation signatures without their own replay file: " + "; ".join(extra_sigs[:12]))
    wall = time.time() - t0
    total_disc = sum(discards.values())
    if evaluations and total_disc > 0.2 * max(1, stats.get("clauses_checked", evaluations)):
        print(f"WARNING: discard volume {total_disc} vs {stats.get('clauses_checked', evaluations)} checked clauses: {discards}")
    zero_probes = [n for n in getattr(mod, "PROBES", []) if not stats.get(n)]
    for n in zero_probes:
        print(f"PROBE-ZERO: {pid} reach probe '{n}' was never hit in this run (the workload, not the oracle, needs re-biasing)")
    if write_evidence and evaluations:
        ev = {
            "property_id": pid,
            "tier": tier,
            "seed": seed,
            "level": mod.LEVEL,
            "wall_s": round(wall, 2),
            "violations": n_viol,
            "coverage": {
                "evaluations": stats.get(getattr(mod, "EVALUATIONS_COUNTER", ""), evaluations) if getattr(mod, "EVALUATIONS_COUNTER", None) else evaluations,
                "runs": evaluations,
                "distinct_nontrivial": len(abstract),
                "rule": mod.RULE,
                "samples": samples[:3] or [r.get("case") for r in records[:1]],
                "simulated_sessions": sessions,
                "seam_events": seam_events,
                "logical_time": "simulated time is logical here (inline-snapshot reads no clock): it is counted in sessions and seam events",
                "runs_per_hour": int(evaluations / wall * 3600) if wall > 0 else 0,
                "sessions_per_hour": int(sessions / wall * 3600) if wall > 0 else 0,
                "faults_fired": faults,
                "counters_and_reach_probes": dict(sorted(stats.items())),
                "reach_probes_required": list(getattr(mod, "PROBES", [])),
                "reach_probes_at_zero": zero_probes,
                "discards": discards,
                "known_findings_met": [l for l in known_lines],
                "stopped_early_by_wall_cap": stopped_early,
                "jobs": jobs,
                "worker_pythonhashseed": getattr(mod, "HASHSEED", "0"),
                "real_vs_stub": mod.REAL_VS_STUB,
                "exhaustive": bool(getattr(mod, "EXHAUSTIVE", {}).get(tier, False)),
            },
            "assumptions": mod.ASSUMPTIONS,
        }
        os.makedirs(os.path.join(VERIF, "evidence"), exist_ok=True)
        with open(os.path.join(VERIF, "evidence", f"{pid}.json"), "w", encoding="utf-8") as f:
            json.dump(ev, f, indent=1, sort_keys=True, ensure_ascii=True)
    print(f"{pid}: runs={evaluations} sessions={sessions} distinct={len(abstract)} violations={n_viol} known={len(known_lines)} "
          f"harness_errors={len(herrs)} wall={wall:.1f}s", flush=True)
    if herrs:
        print("HARNESS-ERROR (a problem of the simulator, not a verdict about the property):")
        for h in herrs[:5]:
            print("  " + h.replace("\n", "\n  ")[:3000])
        if not n_viol:
            return 2, digests
    if evaluations == 0:
        print("HARNESS-ERROR: nothing was executed")
        return 2, digests
    return (1 if n_viol else 0), digests
