"""A warm session server running under one fixed PYTHONHASHSEED (C16): reads one JSON request per line on stdin
({"driver", "files", "spec"}), executes the session in a forked child as usual, answers one JSON line."""
import json
import os
import shutil
import sys


def main():
    from . import drivers, sim
    from .runner import Ctx
    from .world import scratch_dir

    sc = scratch_dir("hs" + os.environ.get("PYTHONHASHSEED", "x"))
    out = os.fdopen(os.dup(1), "w")
    devnull = os.open(os.devnull, os.O_WRONLY)
    os.dup2(devnull, 1)
    try:
        drivers.warm_up(sc)
        out.write(json.dumps({"ready": True, "hashseed": os.environ.get("PYTHONHASHSEED"), "flags_hash_randomization": sys.flags.hash_randomization}) + "\n")
        out.flush()
        for line in sys.stdin:
            req = json.loads(line)
            ctx = Ctx(sc)
            try:
                new, res = sim.run_session(ctx, req["driver"], req["files"], req["spec"])
                ans = {"files": sim.to_text({k: v for k, v in new.items() if k != "simlib.py"}), "status": res.get("status"), "rc": res.get("rc"),
                       "exc": res.get("exc"), "categories": res.get("categories"), "rec": res.get("rec"), "raises": str(res.get("raises"))[:300] if res.get("raises") else None,
                       "completed": sim.session_completed(req["driver"], res), "nseam": len(res.get("trace") or [])}
            except Exception as e:  # harness problem
                ans = {"harness_error": repr(e)[:500]}
            out.write(json.dumps(ans) + "\n")
            out.flush()
    finally:
        shutil.rmtree(sc, ignore_errors=True)


if __name__ == "__main__":
    main()
