"""Fixed vocabulary of the generated test projects (written into every project as simlib.py).

Test modules do ``from simlib import *``; every class whose instances can be
observed lives here, so the code inline-snapshot generates (``DC(a=1)``,
``Color.RED`` ...) evaluates in the test module's own namespace.
"""
import collections
import dataclasses
import enum
import typing

import attrs
import pydantic

from inline_snapshot import HasRepr  # noqa: F401  (needed by read-back of generated code only when the tool imports it itself)
from inline_snapshot import Is
from inline_snapshot import external  # noqa: F401
from inline_snapshot import outsource
from inline_snapshot import snapshot

__all__ = [
    "Color", "Perm", "Outer", "DC", "DCD", "DCN", "AT", "PM", "NT", "NTD", "NoCode", "NoCodeBox", "BadCopy", "RaisesEq",
    "Unorderable", "REC", "rec", "ok", "mark", "check_eq", "check_le", "check_ge", "check_in", "G", "set_g",
    "Is", "outsource", "snapshot", "defaultdict", "ident", "Plain", "EvilEq", "snapshot_alias", "NP", "NPBool", "check_example", "EXAMPLE_SRC", "KW", "Tags", "FTags", "rec_value", "in_thread", "BadList", "ATP", "DCI", "IPerm", "NoCodeStmt", "DCA", "DCB", "NoCodeSometimes",
]

defaultdict = collections.defaultdict


class Tags(set):
    """a subclass of set without a __repr__ of its own (it inherits the C-level set.__repr__)"""


class FTags(frozenset):
    """the same for frozenset"""


class Color(enum.Enum):
    RED = 1
    GREEN = 2
    BLUE = 3


class Perm(enum.Flag):
    R = 1
    W = 2
    X = 4


class Outer:
    class Inner(enum.Enum):
        A = 1
        B = 2

    @dataclasses.dataclass
    class IDC:
        v: typing.Any = 0


@dataclasses.dataclass
class DC:
    a: typing.Any
    b: typing.Any = None
    c: typing.Any = dataclasses.field(default_factory=list)


@dataclasses.dataclass
class DCD:
    """all fields have defaults; one is hidden from repr"""

    x: typing.Any = 0
    y: typing.Any = "y"
    h: typing.Any = dataclasses.field(default=7, repr=False, compare=False)


@dataclasses.dataclass(kw_only=True)
class KW:
    """keyword-only fields: a required field may follow optional ones"""

    r: typing.Any = 3
    t: typing.Any = dataclasses.field(default_factory=list)
    n: typing.Any


@dataclasses.dataclass
class DCA:
    """two classes with the same fields: DCA(v=5) != DCB(v=5)"""

    v: typing.Any
    w: typing.Any = 0


@dataclasses.dataclass
class DCB:
    v: typing.Any
    w: typing.Any = 0


@dataclasses.dataclass
class DCI:
    """a field that is not an argument of the constructor"""

    x: typing.Any
    y: typing.Any = dataclasses.field(init=False, default=2)


class IPerm(enum.IntFlag):
    """an IntFlag keeps bits that have no name: IPerm(12)"""

    R = 1
    W = 2


@dataclasses.dataclass(frozen=True)
class DCN:
    """hashable, usable as dict key / set element"""

    k: int
    t: str = "t"


@attrs.define
class AT:
    p: typing.Any
    q: typing.Any = 3
    r: typing.Any = attrs.field(factory=list)


@attrs.define
class ATP:
    """a private attribute: the argument of __init__ is called x"""

    _x: typing.Any
    z: typing.Any = 0


class PM(pydantic.BaseModel):
    m: typing.Any
    n: typing.Any = 1
    o: typing.Any = pydantic.Field(default_factory=list)


NT = collections.namedtuple("NT", "f,g")
NTD = collections.namedtuple("NTD", "f,g,h", defaults=(5, "h"))


class Plain:
    """a class object itself can be a value (repr -> qualname)"""


class NoCode:
    """repr is not Python code -> recorded through HasRepr.  __eq__ answers
    NotImplemented for foreign types, exactly like ``object`` does."""

    def __init__(self, n):
        self.n = n

    def __repr__(self):
        return f"<NoCode n={self.n}>"

    def __eq__(self, other):
        if type(other) is not NoCode:
            return NotImplemented
        return self.n == other.n

    __hash__ = None


class NoCodeStmt:
    """repr is Python code, but a statement and not an expression (`n=3`): recorded through HasRepr as well"""

    def __init__(self, n):
        self.n = n

    def __repr__(self):
        return f"n={self.n}"

    def __eq__(self, other):
        if type(other) is not NoCodeStmt:
            return NotImplemented
        return self.n == other.n

    __hash__ = None


class NoCodeSometimes:
    """the repr is Python code for some instances and not for others of the same type"""

    def __init__(self, n):
        self.n = n

    def __repr__(self):
        return f"NoCodeSometimes({self.n})" if self.n else "<NoCodeSometimes unset>"

    def __eq__(self, other):
        if type(other) is not NoCodeSometimes:
            return NotImplemented
        return self.n == other.n

    __hash__ = None


class NoCodeBox:
    """repr is not Python code and is built with repr(child), like most hand-written __repr__ methods"""

    def __init__(self, x):
        self.x = x

    def __repr__(self):
        return "<Box " + repr(self.x) + ">"

    def __eq__(self, other):
        if type(other) is not NoCodeBox:
            return NotImplemented
        return self.x == other.x

    __hash__ = None


class BadCopy:
    """deepcopy(x) != x : must be rejected with a usage error"""

    def __init__(self, n):
        self.n = n

    def __repr__(self):
        return f"BadCopy({self.n})"

    def __eq__(self, other):
        if type(other) is not BadCopy:
            return NotImplemented
        return self is other

    def __le__(self, other):
        return NotImplemented

    __hash__ = None


class BadList(list):
    """a subclass of a builtin whose deep copy is not equal to it; it overrides __eq__ only, so list.__ne__ still compares the items"""

    def __init__(self, items=()):
        super().__init__(items)
        self.handle = object()  # e.g. a connection, compared by identity

    def __eq__(self, other):
        if not isinstance(other, BadList):
            return NotImplemented
        return self.handle is other.handle and list.__eq__(self, other)

    __hash__ = None


class RaisesEq:
    """__eq__ raises when compared with something that is not a RaisesEq"""

    def __init__(self, n):
        self.n = n

    def __repr__(self):
        return f"RaisesEq({self.n})"

    def __eq__(self, other):
        if type(other) is not RaisesEq:
            raise ValueError("RaisesEq compared with a foreign type")
        return self.n == other.n

    __hash__ = None


class EvilEq:
    """equal to itself and its copies; raising when compared with an int > limit"""

    def __init__(self, n):
        self.n = n

    def __repr__(self):
        return f"EvilEq({self.n})"

    def __eq__(self, other):
        if type(other) is EvilEq:
            return self.n == other.n
        raise ValueError("EvilEq compared with a foreign type")

    __hash__ = None


class NPBool:
    """the answer of a comparison between NP scalars: truthy / falsy, but not the builtin True / False (like numpy.bool_)"""

    def __init__(self, v):
        self.v = bool(v)

    def __bool__(self):
        return self.v

    def __repr__(self):
        return f"NPBool({self.v})"


class NP:
    """a numpy-like scalar: its comparisons answer NPBool objects"""

    def __init__(self, x):
        self.x = x

    def __repr__(self):
        return f"NP({self.x!r})"

    def _cmp(self, other, op):
        if isinstance(other, NP):
            other = other.x
        if not isinstance(other, (int, float)) or isinstance(other, bool):
            return NotImplemented
        return NPBool(op(self.x, other))

    def __eq__(self, other):
        return self._cmp(other, lambda a, b: a == b)

    def __ne__(self, other):
        return self._cmp(other, lambda a, b: a != b)

    def __le__(self, other):
        return self._cmp(other, lambda a, b: a <= b)

    def __ge__(self, other):
        return self._cmp(other, lambda a, b: a >= b)

    def __lt__(self, other):
        return self._cmp(other, lambda a, b: a < b)

    def __gt__(self, other):
        return self._cmp(other, lambda a, b: a > b)

    def __hash__(self):
        return hash(self.x)


class Unorderable:
    def __init__(self, n):
        self.n = n

    def __repr__(self):
        return f"Unorderable({self.n})"

    def __eq__(self, other):
        return type(other) is Unorderable and self.n == other.n

    def __hash__(self):
        return hash(self.n)


def ident(x):
    return x


# the same function under another name (used where a call must not be counted as a generated call site)
snapshot_alias = snapshot


# ---------------------------------------------------------------- recording
REC = []


def _enc(r):
    if r is True or r is False:
        return r
    return "V:" + type(r).__name__


def rec(eid, thunk):
    """evaluate a comparison, never abort the test, record the answer or the exception type"""
    try:
        v = _enc(thunk())
    except BaseException as e:  # noqa
        if type(e).__name__ in ("Exit", "KeyboardInterrupt", "SystemExit"):
            raise
        v = "E:" + type(e).__name__
    REC.append([eid, v])
    return v


def rec_value(eid, r):
    """like rec() for a comparison that was evaluated in place: r is its answer or the exception it raised"""
    if isinstance(r, BaseException):
        if type(r).__name__ in ("Exit", "KeyboardInterrupt", "SystemExit"):
            raise r
        v = "E:" + type(r).__name__
    else:
        v = _enc(r)
    REC.append([eid, v])
    return v


def ok(eid):
    REC.append([eid, True])


def mark(eid, what="at"):
    REC.append([eid, what])


EXAMPLE_SRC = "from inline_snapshot import snapshot\n\ndef test_a():\n    assert 5 == snapshot()\n"


def check_example(flags, changed):
    """run a small example through inline_snapshot.testing.Example.run_inline; `changed` (usually a snapshot of the calling test) is
    compared by the helper with the files its inner run changed"""
    from inline_snapshot.testing import Example

    Example(EXAMPLE_SRC).run_inline([f"--inline-snapshot={flags}"] if flags else [], changed_files=changed)
    return True


def in_thread(thunk):
    """evaluate thunk in a worker thread that is started and joined here; its answer (or exception) is handed to the caller"""
    import threading

    box = {}

    def run():
        try:
            box["v"] = thunk()
        except BaseException as e:  # noqa
            box["e"] = e

    t = threading.Thread(target=run)
    t.start()
    t.join()
    if "e" in box:
        raise box["e"]
    return box["v"]


def check_eq(a, b):
    return a == b


def check_le(a, b):
    return a <= b


def check_ge(a, b):
    return a >= b


def check_in(a, b):
    return a in b


# a global that hand-written snapshot arguments may read (C14 re-evaluation clause)
G = {"v": 0}


def set_g(v):
    G["v"] = v
