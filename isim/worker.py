import sys

from .runner import worker_main

if __name__ == "__main__":
    worker_main(sys.argv[1:])
