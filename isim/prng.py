"""One integer decides everything: independent PRNG sub-streams derived from a run seed.

Adding a draw to one component must not shift another, so every component asks
for its own labelled stream.  Logging never draws.
"""
import hashlib
import random


def sub(seed, label):
    h = hashlib.sha256(f"{seed}/{label}".encode()).digest()
    return random.Random(int.from_bytes(h[:8], "big"))


def run_seed(verif_seed, index):
    return int(verif_seed) * 10**6 + int(index)
