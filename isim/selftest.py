"""Self-tests of the simulator (DESIGN 2.10): determinism of seeds, schema validity."""
import json
import os
import sys
import time

from . import runner


def determinism(props, n, base=777):
    """same seeds: 4 workers vs 7 workers vs harness under another PYTHONHASHSEED -> equal digests"""
    bad = []
    for pid in props:
        mod = runner.load_prop(pid)
        if getattr(mod, "HASH_DIMENSION", False):
            seeds = [getattr(mod, "HASHSEED", "0")] * 2
        else:
            seeds = ["0", "4242"]
        t0 = time.time()
        runs = []
        for jobs, hs in [(4, seeds[0]), (7, seeds[0]), (5, seeds[1])]:
            recs, herr = runner.run_workers(pid, base, n, jobs, "quick", 0, hashseed=hs)
            if herr:
                bad.append(f"{pid}: harness errors in determinism run: {herr[0][:500]}")
            runs.append({r["i"]: r.get("digest") for r in recs if "digest" in r})
        ref = runs[0]
        diffs = [i for i in sorted(ref) if any(r.get(i) != ref[i] for r in runs[1:])]
        print(f"selftest determinism {pid}: {len(ref)} seeds x 3 executions (4 / 7 workers, other harness hash seed): "
              f"{'OK' if not diffs else 'DIFFER at ' + str(diffs[:8])}  [{time.time() - t0:.1f}s]", flush=True)
        if diffs or len(ref) == 0:
            bad.append(f"{pid}: digests differ for run indices {diffs[:8]} (base {base})")
    return bad


def validate_files():
    import jsonschema

    bad = []
    man = json.load(open(os.path.join(runner.VERIF, "MANIFEST.json")))
    jsonschema.validate(man, json.load(open("/root/.vp/MANIFEST.schema.json")))
    ev_schema = json.load(open("/root/.vp/EVIDENCE.schema.json"))
    for c in man["checks"]:
        p = os.path.join(runner.VERIF, c["evidence_file"]) if not c["evidence_file"].startswith("/") else c["evidence_file"]
        if os.path.exists(p):
            try:
                jsonschema.validate(json.load(open(p)), ev_schema)
            except Exception as e:
                bad.append(f"{p}: {str(e)[:300]}")
    return bad


def main(props=None, n=24):
    man = json.load(open(os.path.join(runner.VERIF, "MANIFEST.json")))
    props = props or [c["property_id"] for c in man["checks"]]
    bad = determinism(props, n)
    try:
        bad += validate_files()
    except ImportError:
        print("jsonschema not available in this interpreter: schema validation skipped")
    for b in bad:
        print("SELFTEST-FAIL:", b)
    return 2 if bad else 0


def setup():
    """MANIFEST.setup_cmd: nothing to build (pure Python, no repo hooks); verify the environment."""
    from . import drivers
    from .world import scratch_dir
    import shutil

    sc = scratch_dir("setup")
    try:
        drivers.warm_up(sc)
    finally:
        shutil.rmtree(sc, ignore_errors=True)
    print("isim setup: inline_snapshot is imported from", drivers.REPO_SRC, "- warm-up session ok")
    return 0
