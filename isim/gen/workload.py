"""Seeded generator of test projects: sites, previous content, observation sequences, schedule."""
from . import program as P
from . import values as V

DEFAULT = dict(
    n_files=(1, 1),
    n_sites=(1, 5),
    n_tests=(1, 3),
    ops=["eq", "eq", "le", "ge", "in", "item"],
    places=["direct", "direct", "func", "module", "helper_arg", "lam"],
    styles=["assert", "rec"],
    prev=["none"],  # per-site choice among: none same other edit tight slack wrong subset superset disjoint
    max_obs=4,
    hand=0.3,  # probability mass of hand-styled previous text
    reflect=0.2,
    layout=True,
    raise_events=0.0,
    idle=0.0,  # probability of an extra site that has content but is never compared (module level / function)
    item_child_ops=["eq", "eq", "eq", "le", "ge", "in"],
)


def mutate_value(rng, v, prof):
    """a value 'near' v: element inserted / deleted / replaced / reordered, field changed"""
    t = v[0]
    if t in ("list", "tuple") and rng.random() < 0.85:
        items = list(v[1])
        if items and rng.random() < 0.15:
            # the old sequence is a prefix of the new one AND the new one ends like the old one (or the other way round):
            # common prefix and common suffix of the two sequences overlap
            k = rng.randint(1, min(2, len(items)))
            longer = items + [V.gen_value(rng, prof, 0, False) for _ in range(rng.randint(0, 1))] + items[-k:]
            return [t, longer]
        if len(items) >= 2 and items[-1] == items[0] and rng.random() < 0.3:
            return [t, items[:-1]]
        for _ in range(rng.randint(1, 2)):
            k = rng.choice(["ins", "del", "rep", "swap", "deep"])
            if k == "ins" or not items:
                items.insert(rng.randint(0, len(items)), V.gen_value(rng, prof, max(prof.max_depth - 1, 0), False))
            elif k == "del":
                items.pop(rng.randrange(len(items)))
            elif k == "rep":
                items[rng.randrange(len(items))] = V.gen_value(rng, prof, max(prof.max_depth - 1, 0), False)
            elif k == "swap" and len(items) > 1:
                i, j = rng.sample(range(len(items)), 2)
                items[i], items[j] = items[j], items[i]
            elif k == "deep":
                i = rng.randrange(len(items))
                items[i] = mutate_value(rng, items[i], prof)
        return [t, items]
    if t == "dict" and rng.random() < 0.85:
        items = [list(x) for x in v[1]]
        for _ in range(rng.randint(1, 2)):
            k = rng.choice(["ins", "del", "rep", "move", "deep", "renins", "renins"])
            if k == "renins" and len(items) >= 2:
                # a key is renamed and another key is added right behind it (delete next to two inserts)
                i = rng.randrange(len(items) - 1)
                for _k in range(2):
                    key = V.gen_hashable(rng, prof, 1)
                    if not any(V._safe_eq(V.pyval(key), V.pyval(k2)) for k2, _ in items):
                        if _k == 0:
                            items[i] = [key, items[i][1]]
                        else:
                            items.insert(i + 2 if i + 2 <= len(items) else len(items), [key, V.gen_value(rng, prof, 0, False)])
                continue
            if k == "ins" or not items:
                key = V.gen_hashable(rng, prof, 1)
                if not any(V._safe_eq(V.pyval(key), V.pyval(k2)) for k2, _ in items):
                    items.insert(rng.randint(0, len(items)), [key, V.gen_value(rng, prof, max(prof.max_depth - 1, 0), False)])
            elif k == "del":
                items.pop(rng.randrange(len(items)))
            elif k == "rep":
                items[rng.randrange(len(items))][1] = V.gen_value(rng, prof, max(prof.max_depth - 1, 0), False)
            elif k == "move" and len(items) > 1:
                it = items.pop(rng.randrange(len(items)))
                items.insert(rng.randint(0, len(items)), it)
            elif k == "deep":
                i = rng.randrange(len(items))
                items[i][1] = mutate_value(rng, items[i][1], prof)
        return [t, items]
    if t == "dc" and rng.random() < 0.85:
        name = v[1]
        fields = {k: x for k, x in v[2]}
        for _ in range(rng.randint(1, 2)):
            f = rng.choice(V.CALL_TYPES[name])
            if name == "DCN":
                fields[f] = ["int", rng.randint(0, 5)] if f == "k" else ["str", rng.choice(["t", "u", ""])]
            elif f in fields and f not in V.REQUIRED[name] and rng.random() < 0.4:
                del fields[f]
            elif f in fields and rng.random() < 0.5:
                fields[f] = mutate_value(rng, fields[f], prof)
            else:
                fields[f] = V.gen_value(rng, prof, max(prof.max_depth - 1, 0), False)
        return ["dc", name, [[k, fields[k]] for k in V.CALL_TYPES[name] if k in fields]]
    return V.gen_value(rng, prof)


def sprinkle_uni(prog, rng, p=0.15):
    """non-ASCII text left of the snapshot() call on the same physical line, for a share of the comparison events"""
    for f in prog["files"]:
        for t in f["tests"]:
            for e in t["events"]:
                if e.get("t") == "cmp" and "var" not in e and "uni" not in e and rng.random() < p:
                    e["uni"] = rng.choice(["äöü", "日本", "é", "Käse 🐍"])
    return prog


def add_nested_tool_imports(f, rng):
    """the file imports the names the tool may have to add (HasRepr, external) only BELOW module level: inside an older hand-written test,
    or in an `if TYPE_CHECKING:` block - neither binds the name at module level at run time"""
    h = f.setdefault("header", {})
    if rng.random() < 0.5:
        h["post"] = list(h.get("post", [])) + ["", "def test_zz_older_hand_written():", "    from inline_snapshot import HasRepr, external", "", "    assert HasRepr is not None and external is not None"]
    else:
        h["pre"] = list(h.get("pre", [])) + ["import typing", "if typing.TYPE_CHECKING:", "    from inline_snapshot import HasRepr, external"]


def add_twin_file(prog, rng, vary=True):
    """a second file with the SAME text layout as the first one: identical function names on identical lines (copied / generated test
    modules, one per backend), optionally with other integer data.  Site and event ids get a suffix, the rendered names stay."""
    import copy

    src = prog["files"][0]
    names = {f["name"] for f in prog["files"]}
    name = next(n for n in ("test_b.py", "test_c.py", "test_d.py", "test_e.py") if n not in names)
    f = copy.deepcopy(src)
    f["name"] = name
    f["sites"] = {}
    for sid, s in src["sites"].items():
        s2 = copy.deepcopy(s)
        s2.setdefault("name", sid)
        f["sites"][sid + "w"] = s2

    def bump(v):
        if v[0] == "int" and not isinstance(v[1], bool):
            return ["int", v[1] + 1]
        if v[0] in ("list", "tuple"):
            return [v[0], [bump(x) for x in v[1]]]
        return v

    f["module_events"] = [e for e in f.get("module_events", []) if e.get("t") != "stmt"]
    for t in [{"events": f["module_events"]}] + f["tests"]:
        # free-text statements carry event ids inside their text: they are not copied
        t["events"][:] = [e for e in t["events"] if e.get("t") != "stmt"]
        for e in t["events"]:
            if "eid" in e:
                e["eid"] = e["eid"] + "w"
            if "site" in e:
                e["site"] = e["site"] + "w"
            if vary and "vals" in e and all(s2.get("arg") is None for s2 in [f["sites"].get(e.get("site"), {})]):
                e["vals"] = [bump(v) for v in e["vals"]]
    prog["files"].append(f)
    return f


def _ordered_family(rng):
    return rng.choice(["int", "int", "str", "tuple", "float"])


def gen_site(rng, prof, o, sid, op=None):
    """-> (site, obs) where obs describes the scripted observations:
    eq:   {"vals": [v, v, ...]}           (same value repeated)
    le/ge:{"vals": [v1..vn]}              (one ordered family)
    in:   {"vals": [v1..vn]}
    item: {"keys": [[key, cop, [vals]]...]}
    and site["prev"] is the value whose text is the previous content (or None)"""
    op = op or rng.choice(o["ops"])
    n = rng.randint(1, o["max_obs"])
    pm = rng.choice(o["prev"])
    prev = None
    if op == "eq":
        v = V.gen_value(rng, prof)
        obs = {"vals": [v] * rng.choice([1, 1, 1, 2, 3])}
        if pm in ("same", "tight"):
            prev = v
        elif pm in ("other", "wrong", "disjoint"):
            prev = V.gen_value(rng, prof)
        elif pm in ("edit", "slack", "subset", "superset"):
            prev = mutate_value(rng, v, prof)
    elif op in ("le", "ge"):
        fam = _ordered_family(rng)
        vals = [V.gen_ordered(rng, prof, fam) for _ in range(n)]
        obs = {"vals": vals}
        pv = [V.pyval(x) for x in vals]
        ext = vals[pv.index(max(pv))] if op == "le" else vals[pv.index(min(pv))]
        if pm in ("same", "tight"):
            prev = ext
        elif pm in ("slack", "superset", "edit", "other", "wrong", "subset", "disjoint"):
            prev = V.gen_ordered(rng, prof, fam)
    elif op == "in":
        vals = [V.gen_value(rng, prof, min(prof.max_depth, 2)) for _ in range(n)]
        obs = {"vals": vals}
        if pm != "none":
            uniq = V._uniq(vals)
            extra = V._uniq([V.gen_value(rng, prof, min(prof.max_depth, 1)) for _ in range(rng.randint(0, 3))])
            if pm in ("same", "tight"):
                pl = uniq
            elif pm in ("subset", "wrong", "edit"):
                pl = [x for x in uniq if rng.random() < 0.5]
                if pm == "edit":
                    pl = pl + extra
            elif pm in ("superset", "slack"):
                pl = uniq + extra
                rng.shuffle(pl)
            else:
                pl = extra
            prev = ["list", V._uniq(pl)]
    elif op == "item":
        nk = rng.randint(1, 3)
        keys = V._uniq([V.gen_scalar(rng, prof, kinds=["int", "str"]) for _ in range(nk)])
        kk = []
        prev_items = []
        for k in keys:
            cop = rng.choice(o["item_child_ops"])
            csite, cobs = gen_site(rng, prof, dict(o, prev=o["prev"], ops=[cop], max_obs=min(3, o["max_obs"])), sid, op=cop)
            kk.append([k, cop, cobs["vals"]])
            if csite["prev"] is not None:
                prev_items.append([k, csite["prev"]])
        obs = {"keys": kk}
        if pm != "none":
            if pm in ("superset", "slack", "edit") or rng.random() < 0.3:
                for k in V._uniq([V.gen_scalar(rng, prof, kinds=["int", "str"]) for _ in range(rng.randint(1, 2))]):
                    if not any(V._safe_eq(V.pyval(k), V.pyval(k2)) for k2, _ in prev_items) and not any(
                        V._safe_eq(V.pyval(k), V.pyval(k2)) for k2 in keys
                    ):
                        prev_items.insert(rng.randint(0, len(prev_items)), [k, V.gen_value(rng, prof, 1)])
            prev = ["dict", prev_items]
    else:
        raise ValueError(op)
    site = {"op": op, "place": rng.choice(o["places"]), "arg": None, "prev": prev}
    if op == "item" and site["place"] == "helper_arg":
        site["place"] = "direct"
    if prev is not None:
        site["arg"] = P.hand_render(prev, rng, o["hand"]) if rng.random() < 0.7 else V.expr(prev)
    return site, obs


def gen_layout(rng):
    h = {}
    if rng.random() < 0.4:
        h["comment"] = rng.choice(["# äöü ß 🐍", "# -*- coding: utf-8 -*-", "# plain comment"])
    if rng.random() < 0.3:
        h["imports"] = "explicit"
    if rng.random() < 0.15:
        # a module docstring (and a __future__ import, which may only follow a docstring) above the import block
        h["top"] = [rng.choice(['"""module docstring ü"""', '"""a docstring\nover two lines\n"""', "'doc'", '"""doc"""  # é'])]
        if rng.random() < 0.6:
            h["top"].append("from __future__ import annotations")
    pre = []
    if rng.random() < 0.3:
        pre.append(rng.choice(['UNI = "äß🐍"  # ünï', "X = [1,\n     2]", "def helper(a,b):  return a", "Y = {'a':1}"]))
    if pre:
        h["pre"] = pre
    if rng.random() < 0.2:
        h["post"] = [rng.choice(["# trailing comment é", "Z = 3", "def tail():\n    return 'ä'"])]
    elif rng.random() < 0.12:
        # a late top-level import below the code (E402 style): imports the tool adds must still land in the leading import block
        h["post"] = [rng.choice(["import os  # noqa: E402", "from os import sep  # late import", "import json as _json"])]
    return h


def gen_layout_c03(rng):
    """layouts for C03/C20: everything of gen_layout plus tabs, CRLF, odd spacing"""
    h = gen_layout(rng)
    r = rng.random()
    if r < 0.12:
        h["tabs"] = True
    elif r < 0.24:
        h["eol"] = "crlf"
    if rng.random() < 0.3:
        h.setdefault("pre", []).append(rng.choice(["def  odd( a,b ):\n    return [a ,b]", "T = ( 1,\n      2 )  # é", "class  K : pass"]))
    if rng.random() < 0.25:
        # characters that str.splitlines() treats as line ends but the Python tokenizer does not
        h.setdefault("pre", []).append(rng.choice(["\x0c", "# page \x0c break", "SEP = 'a\u2028b'  # \u2028", "# nel \x85 in a comment", "FS = 'x\x1cy'"]))
    if rng.random() < 0.25:
        # the last import of the leading import block shares its line with another statement / a comment
        h["pre"] = [rng.choice(["import json; J = json.dumps(1)  # optional é", "import os  # keep", "import os, sys; P = os.sep"])] + h.get("pre", [])
    return h


def gen_program(rng, prof, o=None):
    """-> program (see program.py) with site["obs"] kept for the model / oracles"""
    o = dict(DEFAULT, **(o or {}))
    files = []
    nf = rng.randint(*o["n_files"])
    sid_n = 0
    eid_n = 0
    for fi in range(nf):
        name = f"test_{'abc'[fi]}.py"
        nt = rng.randint(*o["n_tests"])
        tests = [{"name": f"test_t{fi}{k}", "events": []} for k in range(nt)]
        sites = {}
        for _ in range(rng.randint(*o["n_sites"])):
            sid_n += 1
            sid = f"s{sid_n}"
            site, obs = gen_site(rng, prof, o, sid)
            site["obs"] = obs
            sites[sid] = site
            shared = site["place"] in ("func", "module", "lam")
            evs = []
            if site["op"] == "item":
                entries = obs["keys"]
                if not shared:
                    entries = entries[:1]
                    obs["keys"] = entries
                for k, cop, vals in entries:
                    eid_n += 1
                    evs.append({"t": "cmp", "eid": f"e{eid_n}", "site": sid, "vals": list(vals), "key": k, "cop": cop})
            else:
                vals = obs["vals"]
                if shared and len(vals) > 1 and rng.random() < 0.6:
                    # spread over several textual events (possibly in several tests)
                    cut = rng.randint(1, len(vals) - 1)
                    parts = [vals[:cut], vals[cut:]]
                else:
                    parts = [vals]
                for part in parts:
                    eid_n += 1
                    evs.append({"t": "cmp", "eid": f"e{eid_n}", "site": sid, "vals": list(part)})
            for e in evs:
                e["style"] = rng.choice(o["styles"])
                if site["op"] in ("eq", "le", "ge") or (site["op"] == "item" and e["cop"] != "in"):
                    e["reflect"] = rng.random() < o["reflect"]
                if len(e["vals"]) == 1 and rng.random() < 0.15:
                    e["loop"] = True
                rng.choice(tests)["events"].append(e)
        if o["idle"] and rng.random() < o["idle"]:
            # a snapshot with hand-written content that no test compares in this program
            sid_n += 1
            sid = f"s{sid_n}"
            v = V.gen_value(rng, prof)
            sites[sid] = {"op": "eq", "place": rng.choice(["module", "func"]), "arg": P.hand_render(v, rng, 0.8), "prev": v, "idle": True}
        for t in tests:
            rng.shuffle(t["events"])
            if o["raise_events"] and rng.random() < o["raise_events"]:
                eid_n += 1
                t["events"].insert(rng.randint(0, len(t["events"])), {"t": "raise", "eid": f"e{eid_n}"})
        f = {"name": name, "header": gen_layout(rng) if o["layout"] else {}, "sites": sites, "tests": tests}
        files.append(f)
    return {"files": files, "pyproject": None}


def site_index(program):
    """{sid: (file, site)}"""
    return {sid: (f, s) for f in program["files"] for sid, s in f["sites"].items()}


def events_in_order(program):
    """[(filename, testname, event)] in schedule order (files alphabetically, tests and events as listed)"""
    out = []
    for f in sorted(program["files"], key=lambda f: f["name"]):
        for e in f.get("module_events", []):
            out.append((f["name"], None, e))
        for t in f["tests"]:
            for e in t["events"]:
                out.append((f["name"], t["name"], e))
    return out


# ---------------------------------------------------------------------- shrinking (for the minimiser)


def _clone(x):
    import json

    return json.loads(json.dumps(x))


def _prune_sites(f):
    used = {e["site"] for t in f["tests"] for e in t["events"] if e.get("t") == "cmp"}
    used |= {e["site"] for e in f.get("module_events", []) if e.get("t") == "cmp"}
    used |= {sid for t in f["tests"] for e in t["events"] if e.get("t") == "cmp2" for sid in e["sites"]}
    f["sites"] = {sid: s for sid, s in f["sites"].items() if sid in used or s.get("idle")}


def shrink_program(program):
    """yield smaller programs: fewer files, tests, events, observations; simpler values; plainer layout"""
    # drop a file
    if len(program["files"]) > 1:
        for i in range(len(program["files"])):
            p = _clone(program)
            del p["files"][i]
            yield p
    for fi, f in enumerate(program["files"]):
        # drop a test
        if len(f["tests"]) > 1:
            for ti in range(len(f["tests"])):
                p = _clone(program)
                del p["files"][fi]["tests"][ti]
                _prune_sites(p["files"][fi])
                yield p
        # drop an event
        for ti, t in enumerate(f["tests"]):
            if len(t["events"]) > 1 or len(f["tests"]) > 1:
                for ei in range(len(t["events"])):
                    p = _clone(program)
                    del p["files"][fi]["tests"][ti]["events"][ei]
                    _prune_sites(p["files"][fi])
                    yield p
        # plainer layout
        if f.get("header"):
            p = _clone(program)
            p["files"][fi]["header"] = {}
            yield p
            for k in list(f["header"]):
                p = _clone(program)
                del p["files"][fi]["header"][k]
                yield p
    for fi, f in enumerate(program["files"]):
        for ti, t in enumerate(f["tests"]):
            for ei, e in enumerate(t["events"]):
                if e.get("t") != "cmp":
                    continue
                # fewer observations
                if "vals" in e and len(e["vals"]) > 1:
                    for k in range(len(e["vals"])):
                        p = _clone(program)
                        del p["files"][fi]["tests"][ti]["events"][ei]["vals"][k]
                        yield p
                for flag in ("loop", "reflect"):
                    if e.get(flag):
                        p = _clone(program)
                        p["files"][fi]["tests"][ti]["events"][ei][flag] = False
                        yield p
                if e.get("style") == "assert":
                    p = _clone(program)
                    p["files"][fi]["tests"][ti]["events"][ei]["style"] = "rec"
                    yield p
                # simpler values
                for k, v in enumerate(e.get("vals", [])):
                    same = all(x == v for x in e["vals"])
                    for s in V.simpler(v):
                        p = _clone(program)
                        ev = p["files"][fi]["tests"][ti]["events"][ei]
                        if same:
                            ev["vals"] = [s] * len(ev["vals"])
                        else:
                            ev["vals"][k] = s
                        yield p
                    if same:
                        break
        for sid, s in f["sites"].items():
            if s["place"] not in ("direct",):
                p = _clone(program)
                if sum(1 for t in f["tests"] for e in t["events"] if e.get("site") == sid) == 1:
                    p["files"][fi]["sites"][sid]["place"] = "direct"
                    yield p
            if s.get("arg") is not None and s.get("prev") is not None:
                plain = V.expr(s["prev"])
                if plain != s["arg"]:
                    p = _clone(program)
                    p["files"][fi]["sites"][sid]["arg"] = plain
                    yield p
                for sv in V.simpler(s["prev"]):
                    p = _clone(program)
                    p["files"][fi]["sites"][sid]["prev"] = sv
                    p["files"][fi]["sites"][sid]["arg"] = V.expr(sv)
                    yield p


def add_mutation_test(rng, f, prefix="m", ops=("eq", "in", "item", "le", "ge"), style="rec", prev=False):
    """append to file spec f one test that interleaves comparisons of a bound mutable object with in-place
    mutations (the C17 dimension inside other workloads).  Returns the new test."""
    from . import values as V

    n0 = len(f["sites"])
    prof = V.Profile(max_depth=1)
    val, muts = V.gen_mutable(rng, prof)
    orderable = val[0] == "list" and all(x[0] == "int" for x in val[1])
    usable = [o for o in ops if o in ("eq", "in", "item") or orderable]
    op = rng.choice(usable)
    events = [{"t": "bind", "var": f"{prefix}x", "val": val}]
    shared_sid = f"{prefix}s{n0}"
    repeated = op in ("in", "le", "ge") and rng.random() < 0.7
    arg = None
    pv = None
    if prev and op in ("le", "ge") and rng.random() < 0.5:
        pv = ["list", [["int", rng.randint(0, 9)]]]
        arg = V.expr(pv)
    f["sites"][shared_sid] = {"op": op, "place": rng.choice(["func", "lam"]) if repeated else "direct", "arg": arg, "prev": pv}
    k = 0

    def cmp_event():
        nonlocal k
        k += 1
        e = {"t": "cmp", "eid": f"{prefix}e{n0}_{k}", "site": shared_sid, "var": f"{prefix}x", "style": style}
        if op == "item":
            e["key"] = ["str", "k"]
            e["cop"] = "eq"
        return e

    events.append(cmp_event())
    for _ in range(rng.randint(1, 3)):
        how = rng.choice(muts)
        if op in ("le", "ge") and rng.random() < 0.6:
            how = "{var}.append(%d)" % rng.randint(0, 9) if op == "le" else "{var}.insert(0, -99)"  # pushes the bound further: the later comparison is the new extreme
        events.append({"t": "mutate", "var": f"{prefix}x", "how": how})
        if repeated and rng.random() < 0.8:
            events.append(cmp_event())
    t = {"name": f"test_{prefix}{n0}", "events": events}
    f["tests"].append(t)
    return t
