"""Programs carry their schedule: a generated project is data (JSON), rendered to test files.

program = {"files": [file...], "pyproject": text | None}
file    = {"name": "test_a.py", "header": {...}, "sites": {sid: site}, "tests": [test...], "module_events": [...]}
site    = {"op": eq|le|ge|in|item, "place": direct|func|module|helper_arg|lam, "arg": text | None}
test    = {"name": "test_t1", "events": [event...], "xfail": bool?}
event   = {"t": "cmp", "eid", "site", "vals": [value...] | "var": name, "style": assert|rec, "reflect": bool,
           "key": value (item), "cop": eq|le|ge|in (item child op), "loop": bool}
          {"t": "raise", "eid"} {"t": "bind", "var", "val"} {"t": "mutate", "var", "how"} {"t": "setg", "val": int}
          {"t": "stmt", "text": "..."}  (verbatim filler statement)

The order of tests in a file and of events in a test IS the schedule.
Sites are re-identified in whatever the tool wrote as "the k-th outermost snapshot(...) call in
source order"; rewriting never adds or removes an outermost call.
"""
import ast

from . import values as V

OPS = ["eq", "le", "ge", "in", "item"]


def _cmp_expr(op, left, getter, reflect=False, key=None, cop="eq"):
    if op == "item":
        getter = f"{getter}[{key}]"
        op = cop
    if op == "eq":
        return f"{getter} == {left}" if reflect else f"{left} == {getter}"
    if op == "le":
        return f"{getter} >= {left}" if reflect else f"{left} <= {getter}"
    if op == "ge":
        return f"{getter} <= {left}" if reflect else f"{left} >= {getter}"
    if op == "in":
        return f"{left} in {getter}"
    raise ValueError(op)


def _snap(arg):
    return "snapshot()" if arg is None else f"snapshot({arg})"


def render_file(f):
    """returns (text, [site ids in textual order])"""
    h = f.get("header", {})
    sites = f["sites"]
    order = []
    L = []
    if h.get("comment"):
        L.append(h["comment"])
    for line in h.get("top", []):
        L.append(line)
    if h.get("imports", "star") == "explicit":
        L.append("from inline_snapshot import snapshot")
        L.append("from simlib import *")
    else:
        L.append("from simlib import *")
    L.append("")
    for line in h.get("pre", []):
        L.append(line)
    # module-level and function-level sites first, in sid order
    for sid, s in sites.items():
        nm = s.get("name", sid)
        if s["place"] == "module":
            L.append(f"{nm.upper()} = {_snap(s['arg'])}")
            order.append(sid)
        elif s["place"] == "func":
            L.append("")
            L.append(f"def get_{nm}():")
            L.append(f"    return {_snap(s['arg'])}")
            L.append("")
            order.append(sid)
        elif s["place"] == "lam":
            L.append(f"get_{nm} = lambda: {_snap(s['arg'])}")
            order.append(sid)
    L.append("")

    used_direct = set()

    def getter(sid):
        s = sites[sid]
        nm = s.get("name", sid)
        if s["place"] == "module":
            return nm.upper()
        if s["place"] in ("func", "lam"):
            return f"get_{nm}()"
        if sid in used_direct:
            raise ValueError(f"direct site {sid} used by more than one textual event")
        used_direct.add(sid)
        order.append(sid)
        return _snap(s["arg"])

    def emit_event(e, ind):
        t = e["t"]
        if t == "cmp":
            s = sites[e["site"]]
            if e.get("setg") is not None:
                L.append(f"{ind}set_g({e['setg']})")
            key = V.expr(e["key"]) if e.get("key") is not None else None
            loop = e.get("loop") or ("vals" in e and len(e["vals"]) != 1)
            if "var" in e:
                left = e["var"]
                loop = False
            elif loop:
                left = "_v"
            else:
                left = V.expr(e["vals"][0])
            if e.get("uni"):
                left = f'("{e["uni"]}", {left})[1]'
            if e.get("access_only"):
                ex = f"{getter(e['site'])}[{key}] is not None"
            elif e.get("via") == "example":
                # the snapshot is handed to the public testing helper, which compares it with the files its inner run changed
                ex = f"check_example({e['exflags']!r}, {getter(e['site'])})"
            elif s["place"] == "helper_arg":
                fn = {"eq": "check_eq", "le": "check_le", "ge": "check_ge", "in": "check_in"}[s["op"]]
                ex = f"{fn}({left}, {getter(e['site'])})"
            elif e.get("access_only"):
                pass
            else:
                ex = _cmp_expr(s["op"], left, getter(e["site"]), e.get("reflect", False), key, e.get("cop", "eq"))
            if e.get("via") == "thread":
                # the comparison is executed by a worker thread which the test starts and joins
                ex = f"in_thread(lambda: {ex})"
            if loop and e.get("fin"):
                # the comparison sits in a finally block, whose body the compiler emits twice: even iterations reach the call on the
                # normal path, odd ones on the exceptional path - two instructions, one call in the source
                L.append(f"{ind}for _k, _v in enumerate([{', '.join(V.expr(x) for x in e['vals'])}]):")
                L.append(f"{ind}    try:")
                L.append(f"{ind}        try:")
                L.append(f"{ind}            if _k % 2:")
                L.append(f"{ind}                raise KeyError(_k)")
                L.append(f"{ind}        finally:")
                ind2 = ind + "            "
            elif loop:
                L.append(f"{ind}for _v in [{', '.join(V.expr(x) for x in e['vals'])}]:")
                ind2 = ind + "    "
            else:
                ind2 = ind
            trail = f"  # {e['trail']}" if e.get("trail") else ""
            if e.get("style", "assert") == "assert":
                L.append(f"{ind2}assert {ex}{trail}")
                L.append(f"{ind2}ok({e['eid']!r})")
            elif loop and e.get("fin"):
                # evaluated in the finally body itself (a lambda would be a code object of its own, compiled once)
                L.append(f"{ind2}try:")
                L.append(f"{ind2}    _r = {ex}{trail}")
                L.append(f"{ind2}except BaseException as _x:")
                L.append(f"{ind2}    _r = _x")
                L.append(f"{ind2}rec_value({e['eid']!r}, _r)")
            else:
                L.append(f"{ind2}rec({e['eid']!r}, lambda: {ex}){trail}")
            if loop and e.get("fin"):
                L.append(f"{ind}    except KeyError:")
                L.append(f"{ind}        pass")
        elif t == "cmp2":
            # two call sites on one line
            parts = []
            for sid, v in zip(e["sites"], e["vals"]):
                s2 = sites[sid]
                parts.append(_cmp_expr(s2["op"], V.expr(v), getter(sid)))
            L.append(f"{ind}rec({e['eid']!r}, lambda: ({parts[0]}) and ({parts[1]}))")
        elif t == "raise":
            L.append(f"{ind}mark({e['eid']!r}, 'raise')")
            L.append(f"{ind}raise ValueError({e['eid']!r})")
        elif t == "bind":
            L.append(f"{ind}{e['var']} = {V.expr(e['val'])}")
        elif t == "mutate":
            L.append(f"{ind}{e['how'].format(var=e['var'])}")
        elif t == "setg":
            L.append(f"{ind}set_g({e['val']})")
        elif t == "stmt":
            L.append(f"{ind}{e['text']}")
        else:
            raise ValueError(t)

    for e in f.get("module_events", []):
        emit_event(e, "")
    for t in f["tests"]:
        L.append("")
        if t.get("xfail") == "false":
            L.append("import pytest")
            L.append("@pytest.mark.xfail(False, reason='condition is false: an ordinary test')")
        elif t.get("xfail") == "false-str":
            L.append("import pytest")
            L.append("@pytest.mark.xfail('sys.version_info < (3,)', reason='a string condition that is false: an ordinary test')")
        elif t.get("xfail") == "false-kw":
            L.append("import pytest")
            L.append("@pytest.mark.xfail(condition=False, reason='condition is false (keyword form): an ordinary test')")
        elif t.get("xfail"):
            L.append("import pytest")
            L.append("@pytest.mark.xfail")
        if t.get("param"):
            L.append("import pytest")
            L.append(f"@pytest.mark.parametrize('_p', {t['param']!r})")
            L.append(f"def {t['name']}(_p):")
        elif t.get("async"):
            # run by pytest-asyncio as a task of an event loop (a copied context)
            if not t.get("xfail"):
                L.append("import pytest")  # (the xfail decorator above already brought its import; nothing may stand between two decorators)
            L.append("@pytest.mark.asyncio")
            L.append(f"async def {t['name']}():")
        elif t.get("args"):
            L.append(f"def {t['name']}({t['args']}):")
        else:
            L.append(f"def {t['name']}():")
        if not t["events"]:
            L.append("    pass")
        for e in t["events"]:
            emit_event(e, "    ")
        L.append("")
    for line in h.get("post", []):
        L.append(line)
    text = "\n".join(L) + "\n"
    if h.get("tabs"):
        text = text.replace("\n    ", "\n\t").replace("\t    ", "\t\t")
    if h.get("bom"):
        text = "\ufeff" + text
    if h.get("eol") == "crlf":
        text = text.replace("\n", "\r\n")
    elif h.get("eol") == "mixed":
        # a file with both kinds of line ends (every third line ends with CRLF)
        text = "".join(ln + ("\r\n" if i % 3 == 0 else "\n") for i, ln in enumerate(text.split("\n")[:-1])) + text.split("\n")[-1]
    missing = [sid for sid in sites if sid not in order]
    # sites never referenced by an event are simply not rendered (direct) - allowed
    return text, order


def render(program, simlib_text=None):
    """-> (files: {name: text}, site_order: {filename: [sid...]})"""
    files = {}
    orders = {}
    for f in program["files"]:
        text, order = render_file(f)
        files[f["name"]] = text
        orders[f["name"]] = order
    if program.get("pyproject") is not None:
        files["pyproject.toml"] = program["pyproject"]
    for name, text in program.get("extra_files", {}).items():
        files[name] = text
    if simlib_text is not None:
        files["simlib.py"] = simlib_text
    return files, orders


# ---------------------------------------------------------------------- reading sites back


class SiteCall:
    __slots__ = ("node", "arg_text", "arg_node", "span", "call_span", "lineno", "region_text")

    def __repr__(self):
        return f"<site line {self.lineno} arg={self.arg_text!r}>"


def find_sites(text):
    """outermost snapshot(...) calls in source order.  Raises SyntaxError if the text does not parse."""
    # a UTF-8 byte order mark is not part of the code (offsets below still count its three bytes)
    bom = 3 if text.startswith("\ufeff") else 0
    if bom:
        text = text[1:]
    tree = ast.parse(text)
    found = []

    def visit(node, inside):
        is_snap = (
            isinstance(node, ast.Call) and isinstance(node.func, ast.Name) and node.func.id == "snapshot"
        )
        if is_snap and not inside:
            found.append(node)
        for child in ast.iter_child_nodes(node):
            visit(child, inside or is_snap)

    visit(tree, False)
    found.sort(key=lambda n: (n.lineno, n.col_offset))
    # physical lines as the Python tokenizer / ast count them: only \n, \r\n and \r end a line
    # (str.splitlines would also split at \x0b \x0c \x1c-\x1e \x85 \u2028 \u2029)
    import re

    lines = re.findall(r"[^\r\n]*(?:\r\n|\r|\n)|[^\r\n]+$", text)
    # byte-exact offsets: ast col_offset is in utf8 bytes
    line_start = [0]
    bl = [l.encode("utf-8") for l in lines]
    for b in bl:
        line_start.append(line_start[-1] + len(b))

    def off(lineno, col):
        return bom + line_start[lineno - 1] + col

    out = []
    data = b"\xef\xbb\xbf"[:bom] + text.encode("utf-8")
    for n in found:
        sc = SiteCall()
        sc.node = n
        sc.lineno = n.lineno
        sc.call_span = (off(n.lineno, n.col_offset), off(n.end_lineno, n.end_col_offset))
        # the parenthesised argument region: from after "snapshot(" to before the final ")"
        func_end = off(n.func.end_lineno, n.func.end_col_offset)
        open_paren = data.index(b"(", func_end)
        sc.span = (open_paren + 1, sc.call_span[1] - 1)
        sc.region_text = data[sc.span[0]: sc.span[1]].decode("utf-8").strip()
        if n.args:
            a = n.args[0]
            sc.arg_node = a
            sc.arg_text = data[off(a.lineno, a.col_offset): off(a.end_lineno, a.end_col_offset)].decode("utf-8")
        else:
            sc.arg_node = None
            sc.arg_text = None
        out.append(sc)
    return out


def mask_sites(text, which=None):
    """bytes of the file with the parenthesised region of the selected outermost snapshot calls
    (all when which is None; else a set of ordinals) replaced by a marker"""
    data = text.encode("utf-8") if isinstance(text, str) else text
    sites = find_sites(data.decode("utf-8"))
    out = bytearray()
    pos = 0
    for i, s in enumerate(sites):
        if which is not None and i not in which:
            continue
        out += data[pos: s.span[0]]
        out += b"__MASK__"
        pos = s.span[1]
    out += data[pos:]
    return bytes(out)


def eval_arg(arg_text, extra_ns=None):
    """value the argument text evaluates to (module namespace = simlib + tool imports)"""
    from inline_snapshot import HasRepr, external

    ns = dict(V.namespace())
    ns["external"] = external
    ns["HasRepr"] = HasRepr
    ns["snapshot"] = lambda *a: a[0] if a else None
    if extra_ns:
        ns.update(extra_ns)
    # the text sits inside the parentheses of snapshot(...): it may span lines without own parentheses
    return eval(compile(ast.parse("(\n" + arg_text.strip() + "\n)", mode="eval"), "<arg>", "eval"), ns)


# ---------------------------------------------------------------------- hand-rendered previous content


DEFAULT_TEXT = {"DC": {"b": "None", "c": "[]"}, "DCD": {"x": "0", "y": "'y'"}, "DCN": {"t": "'t'"}, "AT": {"q": "3", "r": "[]"}, "PM": {"n": "1", "o": "[]"},
                "NTD": {"g": "5", "h": "'h'"}, "Outer.IDC": {"v": "0"}}


def hand_render(v, rng, fancy=0.3):
    """'arbitrary but valid' source text for a value: other quotes, trailing commas, multi-line
    layouts with comments, arithmetic spellings of ints, implicit string concatenation."""
    t = v[0]
    r = rng.random
    if t == "int":
        n = v[1]
        if r() < fancy and abs(n) < 1000:
            k = rng.randint(0, 3)
            return f"{n - k}+{k}" if n - k >= 0 else f"({n - k})+{k}"
        return repr(n)
    if t == "str":
        s = v[1]
        if r() < fancy and s and "\n" not in s and "\\" not in s and "'" not in s and '"' not in s and s.isprintable():
            k = rng.randint(0, len(s))
            if r() < 0.5:
                return f"'{s}'"
            return f'"{s[:k]}" "{s[k:]}"'
        return repr(s)
    if t in ("list", "tuple"):
        items = [hand_render(x, rng, fancy) for x in v[1]]
        o, c = ("[", "]") if t == "list" else ("(", ")")
        if t == "tuple" and len(items) == 1:
            return f"({items[0]},)"
        if items and r() < fancy:
            if r() < 0.5:
                return o + ", ".join(items) + "," + c
            return o + "\n    " + ",\n    ".join(items) + ",  # last\n" + c
        if r() < fancy:
            return o + " " + " , ".join(items) + " " + c if items else o + c
        return o + ", ".join(items) + c
    if t == "dict":
        items = [f"{hand_render(k, rng, 0)}: {hand_render(x, rng, fancy)}" for k, x in v[1]]
        if items and r() < fancy:
            return "{\n    " + ",\n    ".join(items) + ",\n}"
        return "{" + ", ".join(items) + "}"
    if t == "dc":
        items = [f"{k}={hand_render(x, rng, fancy)}" for k, x in v[2]]
        if r() < fancy:
            # default values written out explicitly (the tool would leave them out: an 'update' deletes them)
            given = {k for k, _ in v[2]}
            order = V.CALL_TYPES.get(v[1], [])
            for k, dv in DEFAULT_TEXT.get(v[1], {}).items():
                if k not in given and r() < 0.6:
                    pos = sum(1 for k2, _ in v[2] if order.index(k2) < order.index(k)) if k in order else len(items)
                    items.insert(min(pos, len(items)), f"{k}={dv}")
                    given.add(k)
        if items and v[1] in ("DC", "NT", "NTD") and v[2][0][0] in ("a", "f") and r() < fancy:
            # first argument written positionally
            items[0] = hand_render(v[2][0][1], rng, fancy)
        return f"{v[1]}(" + ", ".join(items) + ")"
    return V.expr(v)
