"""Value universe.  A value is a JSON tree (lists, no tuples) so that cases can be stored,
minimised and classified; ``expr(v)`` renders the harness's own construction expression
over the simlib namespace and ``pyval(v)`` evaluates it.

Node shapes:
  ["int", n] ["bool", b] ["none"] ["float", repr] ["inf", sign] ["complex", re, im]
  ["str", s] ["bytes", latin1-str]
  ["list", [v..]] ["tuple", [v..]] ["dict", [[k, v]..]] ["set", [v..]] ["frozenset", [v..]]
  ["enum", "Color.RED"] ["flag", "Perm", ["R", "W"]] ["cls", "Plain"]
  ["dc", "DC", [[field, v]..]]  (also DCD, DCN, AT, PM, NT, NTD, Outer.IDC)
  ["dd", factory_name, [[k, v]..]]
  ["norepr", n] ["ext", data_value, suffix_or_None]
  ["badcopy", n] ["raiseseq", n] ["evileq", n] ["unorderable", n]
"""

ADVERSARIAL = ["'", '"', "\\", "\n", "\r", "\t", " ", "\x00", "\x7f", "\xe4", "\U0001f40d", "\u2028", "\u0085",
               "{", "}", "#", "\x0c", "a", "b", "Z", "0", "'''", '"""', "\\n", " \n", "\n ", "\xe9",
               # text that looks like (generated) python source
               "_ = ", " = ", "snapshot(", "external(", "x=1", "%s", "\\N{DASH}", "\\x41", "u'", "rb\""]
PLAIN = list("abcxyz01 _-")
CORE12 = ["'", '"', "\\", "\n", "\r", " ", "a", "\t", "\xe4", "\x00", "#", "{"]

CALL_TYPES = {
    "DC": ["a", "b", "c"],
    "DCD": ["x", "y"],
    "DCN": ["k", "t"],
    "AT": ["p", "q", "r"],
    "PM": ["m", "n", "o"],
    "NT": ["f", "g"],
    "NTD": ["f", "g", "h"],
    "Outer.IDC": ["v"],
}
REQUIRED = {"DC": ["a"], "DCD": [], "DCN": ["k"], "AT": ["p"], "PM": ["m"], "NT": ["f", "g"], "NTD": ["f"], "Outer.IDC": []}
ENUMS = ["Color.RED", "Color.GREEN", "Color.BLUE", "Outer.Inner.A", "Outer.Inner.B"]
FLAGS = ["R", "W", "X"]


def expr(v):
    t = v[0]
    if t == "int":
        return repr(v[1])
    if t == "bool":
        return repr(bool(v[1]))
    if t == "none":
        return "None"
    if t == "float":
        return v[1]
    if t == "inf":
        return 'float("-inf")' if v[1] < 0 else 'float("inf")'
    if t == "complex":
        return f"complex({v[1]!r}, {v[2]!r})"
    if t == "str":
        return repr(v[1])
    if t == "bytes":
        return repr(v[1].encode("latin-1"))
    if t == "list":
        return "[" + ", ".join(expr(x) for x in v[1]) + "]"
    if t == "tuple":
        if len(v[1]) == 1:
            return "(" + expr(v[1][0]) + ",)"
        return "(" + ", ".join(expr(x) for x in v[1]) + ")"
    if t == "dict":
        return "{" + ", ".join(f"{expr(k)}: {expr(x)}" for k, x in v[1]) + "}"
    if t == "set":
        if not v[1]:
            return "set()"
        return "{" + ", ".join(expr(x) for x in v[1]) + "}"
    if t == "frozenset":
        if not v[1]:
            return "frozenset()"
        return "frozenset({" + ", ".join(expr(x) for x in v[1]) + "})"
    if t == "enum":
        return v[1]
    if t == "flag":
        if not v[2]:
            return f"{v[1]}(0)"
        return " | ".join(f"{v[1]}.{n}" for n in v[2])
    if t == "cls":
        return v[1]
    if t == "dc":
        return f"{v[1]}(" + ", ".join(f"{k}={expr(x)}" for k, x in v[2]) + ")"
    if t == "dd":
        return f"defaultdict({v[1]}, {{" + ", ".join(f"{expr(k)}: {expr(x)}" for k, x in v[2]) + "})"
    if t == "norepr":
        return f"NoCode({v[1]})"
    if t == "nbox":
        return f"NoCodeBox({expr(v[1])})"
    if t == "ext":
        sfx = "" if v[2] is None else f", suffix={v[2]!r}"
        return f"outsource({expr(v[1])}{sfx})"
    if t == "badcopy":
        return f"BadCopy({v[1]})"
    if t == "badlist":
        return f"BadList([{v[1]}, {v[1] + 1}])"
    if t == "raiseseq":
        return f"RaisesEq({v[1]})"
    if t == "evileq":
        return f"EvilEq({v[1]})"
    if t == "unorderable":
        return f"Unorderable({v[1]})"
    if t == "np":
        return f"NP({v[1]!r})"
    if t == "raw":
        # a value given by its source text (vocabulary of simlib), for shapes the generator has no node type for
        return v[1]
    if t == "subc":
        # instance of a subclass of a builtin container (v[2]: Tags(set) / FTags(frozenset)) built from the plain container v[1]
        return f"{v[2]}({expr(v[1])})"
    raise ValueError(v)


_NS = None


def namespace():
    global _NS
    if _NS is None:
        from isim import simlib_template as m

        _NS = {k: getattr(m, k) for k in m.__all__}
        _NS["Outer"] = m.Outer
    return _NS


def pyval(v):
    return eval(expr(v), dict(namespace()))


def walk(v):
    yield v
    t = v[0]
    if t in ("list", "tuple", "set", "frozenset"):
        for x in v[1]:
            yield from walk(x)
    elif t in ("dict",):
        for k, x in v[1]:
            yield from walk(k)
            yield from walk(x)
    elif t in ("dc", "dd"):
        for k, x in v[2]:
            if t == "dd":
                yield from walk(k)
            yield from walk(x)
    elif t in ("ext", "nbox", "subc"):
        yield from walk(v[1])


def type_path(v, depth=3):
    """abstract shape used for distinct-state counting"""
    t = v[0]
    if depth == 0:
        return t
    if t in ("list", "tuple", "set", "frozenset"):
        return t + "(" + ",".join(sorted({type_path(x, depth - 1) for x in v[1]})) + ")"
    if t == "dict":
        return "dict(" + ",".join(sorted({type_path(k, depth - 1) + ":" + type_path(x, depth - 1) for k, x in v[1]})) + ")"
    if t == "dc":
        return v[1] + "(" + ",".join(sorted({type_path(x, depth - 1) for _, x in v[2]})) + ")"
    if t == "dd":
        return "dd(" + ",".join(sorted({type_path(x, depth - 1) for _, x in v[2]})) + ")"
    if t == "str":
        s = v[1]
        f = []
        if "\n" in s:
            f.append("nl")
        if s != s.strip():
            f.append("edge")
        if any(ord(c) > 127 for c in s):
            f.append("u")
        if "'" in s or '"' in s:
            f.append("q")
        if "\\" in s:
            f.append("bs")
        return "str[" + "".join(f) + "]"
    return t


# ------------------------------------------------------------------ generation


class Profile:
    """which value families a run may use (swarm: drawn per run)"""

    def __init__(self, **kw):
        self.scalars = kw.get("scalars", ["int", "bool", "none", "str", "bytes", "float"])
        self.containers = kw.get("containers", ["list", "tuple", "dict"])
        self.calls = kw.get("calls", [])
        self.special = kw.get("special", [])  # inf, complex, flag0, norepr, ext, set, frozenset, enum, flag, cls, dd
        self.alphabet = kw.get("alphabet", "adversarial")
        self.max_depth = kw.get("max_depth", 3)
        self.max_len = kw.get("max_len", 4)
        self.str_len = kw.get("str_len", 8)
        self.hash_sensitive = kw.get("hash_sensitive", False)


def draw_profile(rng, **force):
    scal = ["int", "bool", "none", "str", "bytes", "float"]
    p = Profile(
        scalars=[s for s in scal if rng.random() < 0.75] or ["int"],
        containers=[c for c in ["list", "tuple", "dict"] if rng.random() < 0.7],
        calls=[c for c in CALL_TYPES if rng.random() < 0.35],
        special=[s for s in ["set", "frozenset", "enum", "flag", "cls", "dd", "complex", "inf", "norepr"] if rng.random() < 0.3],
        alphabet=rng.choice(["adversarial", "adversarial", "plain"]),
        max_depth=rng.choice([1, 2, 2, 3, 3, 4]),
        max_len=rng.choice([2, 3, 4, 6]),
        str_len=rng.choice([3, 8, 8, 20, 40]),
    )
    for k, v in force.items():
        setattr(p, k, v)
    return p


def gen_str(rng, prof, long_ok=True):
    alpha = ADVERSARIAL if prof.alphabet == "adversarial" else PLAIN
    n = rng.randint(0, prof.str_len)
    if long_ok and rng.random() < 0.03:
        n = rng.randint(100, 200)
    return "".join(rng.choice(alpha) for _ in range(n))


def gen_scalar(rng, prof, hashable=False, kinds=None):
    kinds = kinds or prof.scalars
    t = rng.choice(kinds)
    if t == "int":
        r = rng.random()
        if r < 0.1:
            return ["int", rng.choice([2**64 + 1, -(2**63) - 5, 10**30])]
        return ["int", rng.randint(-9, 30)]
    if t == "bool":
        return ["bool", rng.random() < 0.5]
    if t == "none":
        return ["none"]
    if t == "float":
        return ["float", repr(rng.choice([0.0, -0.0, 1.5, -2.25, 1e100, 3.14, 1e-7, 0.1, 123456.789]))]
    if t == "str":
        return ["str", gen_str(rng, prof)]
    if t == "bytes":
        s = gen_str(rng, prof, long_ok=False)
        return ["bytes", "".join(c if ord(c) < 256 else "?" for c in s)]
    raise ValueError(t)


def gen_hashable(rng, prof, depth):
    opts = ["scalar", "scalar"]
    if "tuple" in prof.containers and depth > 0:
        opts.append("tuple")
    if "enum" in prof.special:
        opts.append("enum")
    if "DCN" in prof.calls:
        opts.append("dcn")
    if "frozenset" in prof.special and depth > 0 and prof.hash_sensitive:
        opts.append("frozenset")
    o = rng.choice(opts)
    if o == "scalar":
        return gen_scalar(rng, prof)
    if o == "tuple":
        return ["tuple", [gen_hashable(rng, prof, depth - 1) for _ in range(rng.randint(0, 3))]]
    if o == "enum":
        return ["enum", rng.choice(ENUMS)]
    if o == "dcn":
        f = [["k", ["int", rng.randint(0, 5)]]]
        if rng.random() < 0.5:
            f.append(["t", ["str", rng.choice(["t", "u", ""])]])
        return ["dc", "DCN", f]
    if o == "frozenset":
        return ["frozenset", _uniq([gen_hashable(rng, prof, 0) for _ in range(rng.randint(0, 3))])]
    raise ValueError(o)


def _uniq(vals, key=None):
    """drop duplicates by Python equality of the evaluated objects"""
    out, seen = [], []
    for v in vals:
        try:
            pv = pyval(v)
        except Exception:
            continue
        if any(_safe_eq(pv, s) for s in seen):
            continue
        seen.append(pv)
        out.append(v)
    return out


def _safe_eq(a, b):
    try:
        return bool(a == b)
    except Exception:
        return a is b


def gen_set_elems(rng, prof, depth):
    """elements of a set: by default totally ordered homogeneous scalars (hash-seed independent text);
    mixed / unorderable / nested frozensets only when the profile is hash_sensitive (C16)"""
    n = rng.randint(0, prof.max_len)
    if not prof.hash_sensitive:
        kind = rng.choice(["int", "str", "ints"])
        if kind == "str":
            return _uniq([["str", gen_str(rng, prof, long_ok=False)] for _ in range(n)])
        return _uniq([["int", rng.randint(-5, 40)] for _ in range(n)])
    r = rng.random()
    if r < 0.3:
        # several frozensets (only partially ordered by <) of strings
        return _uniq([["frozenset", _uniq([["str", rng.choice("abcdefgh") * rng.randint(1, 2)] for _ in range(rng.randint(0, 3))])] for _ in range(rng.randint(2, 4))])
    if r < 0.45:
        # tuples that carry a frozenset of strings, next to an element that makes the set unorderable
        return _uniq([["none"]] + [["tuple", [["str", rng.choice("xyz")], ["frozenset", _uniq([["str", rng.choice("klmnop")] for _ in range(rng.randint(2, 3))])]]] for _ in range(rng.randint(2, 3))])
    if r < 0.55:
        # elements that are only partially ordered although they are not sets themselves: tuples whose FIRST member is a frozenset of
        # strings (items() of a mapping with frozenset keys); `<` answers False in both directions, sorted() does not raise
        return _uniq([["tuple", [["frozenset", _uniq([["str", rng.choice("abcdefgh") * rng.randint(1, 2)] for _ in range(rng.randint(1, 3))])], ["int", rng.randint(0, 5)]]]
                      for _ in range(rng.randint(2, 4))])
    if r < 0.65:
        return _uniq([["none"], ["str", gen_str(rng, prof, long_ok=False)], ["int", rng.randint(0, 9)], ["bytes", "ab"], ["enum", rng.choice(ENUMS)], ["tuple", [["int", 1]]]][: max(2, n)])
    return _uniq([gen_hashable(rng, prof, depth) for _ in range(n)])


def gen_value(rng, prof, depth=None, top=True):
    depth = prof.max_depth if depth is None else depth
    opts = ["scalar"] * 3
    if depth > 0:
        opts += prof.containers * 2
        opts += prof.calls
        opts += [s for s in prof.special if s in ("set", "frozenset", "dd")]
    opts += [s for s in prof.special if s in ("enum", "flag", "cls", "complex", "inf", "norepr", "flag0")]
    o = rng.choice(opts)
    if o == "scalar":
        return gen_scalar(rng, prof)
    n = rng.randint(0, prof.max_len)
    if rng.random() < 0.04:
        n = rng.randint(8, 14)  # long: forces re-wrapping
    if o == "list":
        return ["list", [gen_value(rng, prof, depth - 1, False) for _ in range(n)]]
    if o == "tuple":
        return ["tuple", [gen_value(rng, prof, depth - 1, False) for _ in range(min(n, rng.choice([0, 1, 2, n])))]]
    if o == "dict":
        keys = _uniq([gen_hashable(rng, prof, 1) for _ in range(n)])
        return ["dict", [[k, gen_value(rng, prof, depth - 1, False)] for k in keys]]
    if o == "set":
        return ["set", gen_set_elems(rng, prof, 1)]
    if o == "frozenset":
        return ["frozenset", gen_set_elems(rng, prof, 1)]
    if o == "dd":
        keys = _uniq([gen_scalar(rng, prof, kinds=["int", "str"]) for _ in range(min(n, 3))])
        return ["dd", rng.choice(["list", "int", "dict"]), [[k, gen_value(rng, prof, max(depth - 1, 0), False)] for k in keys]]
    if o in CALL_TYPES:
        fields = []
        for f in CALL_TYPES[o]:
            if f in REQUIRED[o] or rng.random() < 0.5:
                if o == "DCN":
                    fv = ["int", rng.randint(0, 5)] if f == "k" else ["str", rng.choice(["t", "u", ""])]
                else:
                    fv = gen_value(rng, prof, depth - 1, False)
                fields.append([f, fv])
        return ["dc", o, fields]
    if o == "enum":
        return ["enum", rng.choice(ENUMS)]
    if o == "flag":
        names = [f for f in FLAGS if rng.random() < 0.5]
        if not names and "flag0" not in prof.special:
            names = ["R"]
        return ["flag", "Perm", names]
    if o == "flag0":
        return ["flag", "Perm", []]
    if o == "cls":
        return ["cls", rng.choice(["Plain", "DC", "Outer.Inner", "Color"])]
    if o == "complex":
        return ["complex", rng.choice([0.0, 1.0, -2.0]), rng.choice([1.0, 2.0, -3.5])]
    if o == "inf":
        return ["inf", rng.choice([1, -1])]
    if o == "norepr":
        if rng.random() < 0.4:
            # the non-code repr embeds repr() of a child whose code form differs from its builtin repr
            inner = rng.choice([["enum", rng.choice(ENUMS)], ["flag", "Perm", ["R", "W"]], ["cls", "Plain"], ["norepr", rng.randint(0, 9)], ["int", rng.randint(0, 9)],
                                ["set", [["enum", "Color.RED"]]], ["dc", "DCN", [["k", ["int", 1]]]]])
            return ["nbox", inner]
        return ["norepr", rng.randint(0, 9)]
    raise ValueError(o)


def gen_ordered(rng, prof, family=None):
    """values from a totally ordered family (for <= / >=)"""
    family = family or rng.choice(["int", "int", "str", "tuple", "float"])
    if family == "int":
        return ["int", rng.randint(-20, 40)]
    if family == "float":
        return ["float", repr(rng.choice([-1.5, 0.0, 0.25, 2.5, 10.0, 1e10]))]
    if family == "str":
        return ["str", gen_str(rng, prof, long_ok=False)]
    if family == "tuple":
        return ["tuple", [["int", rng.randint(0, 3)], ["int", rng.randint(0, 3)]]]
    raise ValueError(family)


def simpler(v):
    """shrink candidates for the minimiser: sub-terms and simpler leaves"""
    t = v[0]
    out = []
    if t in ("list", "tuple", "set", "frozenset"):
        for i in range(len(v[1])):
            out.append([t, v[1][:i] + v[1][i + 1:]])
        for i, x in enumerate(v[1]):
            out.append(x)
            for s in simpler(x):
                out.append([t, v[1][:i] + [s] + v[1][i + 1:]])
    elif t == "dict":
        for i in range(len(v[1])):
            out.append([t, v[1][:i] + v[1][i + 1:]])
        for i, (k, x) in enumerate(v[1]):
            out.append(x)
            for s in simpler(x):
                out.append([t, v[1][:i] + [[k, s]] + v[1][i + 1:]])
    elif t == "dc":
        for i, (k, x) in enumerate(v[2]):
            if k not in REQUIRED.get(v[1], []):
                out.append([t, v[1], v[2][:i] + v[2][i + 1:]])
            out.append(x)
            for s in simpler(x):
                out.append([t, v[1], v[2][:i] + [[k, s]] + v[2][i + 1:]])
    elif t == "dd":
        for i in range(len(v[2])):
            out.append([t, v[1], v[2][:i] + v[2][i + 1:]])
        for i, (k, x) in enumerate(v[2]):
            for s in simpler(x):
                out.append([t, v[1], v[2][:i] + [[k, s]] + v[2][i + 1:]])
    elif t == "str":
        s = v[1]
        if len(s) > 1:
            out.append(["str", s[: len(s) // 2]])
            out.append(["str", s[len(s) // 2:]])
            for i in range(min(len(s), 12)):
                out.append(["str", s[:i] + s[i + 1:]])
    elif t == "bytes":
        s = v[1]
        if len(s) > 1:
            out.append(["bytes", s[: len(s) // 2]])
            out.append(["bytes", s[len(s) // 2:]])
    elif t == "int":
        if v[1] not in (0, 1):
            out.append(["int", 0])
            out.append(["int", 1])
    elif t == "ext":
        for s in simpler(v[1]):
            out.append(["ext", s, v[2]])
    if t not in ("int", "none") and t not in ("str",):
        out.append(["int", 0])
    return out


def gen_mutable(rng, prof):
    """a mutable value and the in-place mutation statements that apply to it ({var} placeholder)"""
    k = rng.choice(["list", "list", "dict", "set", "dc", "nested", "tuple_inner", "dc_inner", "dictlist"])
    ints = lambda n: [["int", rng.randint(0, 9)] for _ in range(n)]
    if k == "list":
        v = ["list", ints(rng.randint(0, 3))]
        muts = ["{var}.append(99)", "{var}.clear()", "{var}.insert(0, -1)", "{var}.extend([7, 8])"]
        if v[1]:
            muts += ["{var}[0] = 77", "{var}.pop()"]
    elif k == "dict":
        v = ["dict", [[["str", "k"], ["int", 1]], [["int", 2], ["list", ints(1)]]]]
        muts = ["{var}['new'] = 5", "{var}.clear()", "{var}['k'] = 'changed'", "{var}[2].append(4)", "del {var}['k']"]
    elif k == "set":
        v = ["set", [["int", 1], ["int", 5]]]
        muts = ["{var}.add(99)", "{var}.clear()", "{var}.discard(1)"]
    elif k == "dc":
        v = ["dc", "DC", [["a", ["int", 1]], ["c", ["list", ints(2)]]]]
        muts = ["{var}.a = 42", "{var}.c.append(3)", "{var}.b = 'set'", "{var}.c.clear()"]
    elif k == "nested":
        v = ["list", [["list", ints(2)], ["dict", [[["str", "x"], ["int", 0]]]]]]
        muts = ["{var}[0].append(5)", "{var}[1]['x'] = 9", "{var}[1]['y'] = []", "{var}.append([1])", "{var}[0].clear()"]
    elif k == "tuple_inner":
        v = ["tuple", [["str", "t"], ["list", ints(rng.randint(0, 2))]]]
        muts = ["{var}[1].append(6)", "{var}[1].clear()", "{var}[1].insert(0, 0)"]
    elif k == "dc_inner":
        v = ["dc", "NT", [["f", ["list", ints(1)]], ["g", ["dict", []]]]]
        muts = ["{var}.f.append(2)", "{var}.g['k'] = 1"]
    else:
        v = ["dict", [[["str", "rows"], ["list", [["list", ints(1)]]]]]]
        muts = ["{var}['rows'].append([0])", "{var}['rows'][0].append(3)"]
    return v, muts
