"""Seams: every I/O, formatter and directory-order call of inline-snapshot goes through here.

Installed inside the forked session process only.  A wrapper is active only for
paths below one of the registered roots AND callers whose module name starts
with ``inline_snapshot`` (frame check), so pytest's own I/O is neither traced
nor faulted.  Every traced call gets the next index of the seam trace; a fault
plan maps indices to actions.
"""
import builtins
import errno
import os
import random
import sys

CRASH_RC = 137

WRITE_KINDS = {"write_text", "write_bytes", "write"}
ERRNO_FOR = {
    "read_text": errno.ENOENT,
    "read_bytes": errno.ENOENT,
    "write_text": errno.ENOSPC,
    "write_bytes": errno.ENOSPC,
    "write": errno.ENOSPC,
    "open_trunc": errno.EACCES,
    "open": errno.EACCES,
    "rename": errno.EACCES,
    "replace": errno.EACCES,
    "unlink": errno.EACCES,
    "mkdir": errno.EACCES,
    "glob": errno.EACCES,
    "iterdir": errno.EACCES,
    "exists": None,  # exists() never raises for ordinary errors
    "fsync": errno.EIO,
}


class Seams:
    def __init__(self, roots, plan=None, trace_fd=None, dir_seed=None):
        self.roots = [os.path.realpath(r) + os.sep for r in roots]
        self.plan = {int(k): v for k, v in (plan or {}).items()}
        self.trace_fd = trace_fd
        self.n = 0
        self.phase = "start"
        self.trace = []
        self.fired = []
        self.dir_rng = random.Random(dir_seed) if dir_seed is not None else None
        self.fmt_calls = 0

    # ------------------------------------------------------------------
    def relevant_path(self, path):
        p = os.path.abspath(os.fspath(path))
        for r in self.roots:
            if p.startswith(r) or p + os.sep == r:
                return os.path.relpath(p, r)
        return None

    @staticmethod
    def caller_is_sut(depth=2):
        f = sys._getframe(depth)
        name = f.f_globals.get("__name__", "")
        return name.startswith("inline_snapshot")

    def crash(self):
        os._exit(CRASH_RC)

    def event(self, kind, rel):
        """Log one seam call, return the planned action (or None).  crash_before is executed here."""
        idx = self.n
        self.n += 1
        self.trace.append([idx, kind, rel, self.phase])
        if self.trace_fd is not None:
            os.write(self.trace_fd, f"{idx}\t{kind}\t{rel}\t{self.phase}\n".encode())
        act = self.plan.get(idx)
        if act is not None:
            self.fired.append([idx, kind, rel, act])
            if self.trace_fd is not None:
                os.write(self.trace_fd, f"!fired\t{idx}\t{act}\n".encode())
            if act == "crash_before":
                self.crash()
        return act

    def no_effect(self):
        """the fault planned for the last event could not take effect (e.g. a legacy-encoding answer for ASCII-only text)"""
        if self.trace_fd is not None:
            os.write(self.trace_fd, f"!noeffect\t{self.n - 1}\n".encode())

    def permute(self, items):
        items = sorted(items, key=lambda p: os.fspath(p))
        if self.dir_rng is not None:
            self.dir_rng.shuffle(items)
        return items


def install(S: Seams):
    import pathlib

    P = pathlib.Path

    def wrap(name, kind):
        orig = getattr(P, name)

        def w(self, *a, **k):
            if not Seams.caller_is_sut():
                return orig(self, *a, **k)
            rel = S.relevant_path(self)
            if rel is None:
                return orig(self, *a, **k)
            act = S.event(kind, rel)
            if act == "oserror":
                code = ERRNO_FOR.get(kind)
                if code is not None:
                    raise OSError(code, os.strerror(code), os.fspath(self))
            if act == "short_write" and kind in ("write_text", "write_bytes"):
                data = a[0]
                if isinstance(data, str):
                    data = data.encode(a[1] if len(a) > 1 and a[1] else "utf-8")
                with builtins.open(self, "wb") as f:
                    f.write(data[: len(data) // 2])
                S.crash()
            res = orig(self, *a, **k)
            if kind in ("glob", "iterdir"):
                res = S.permute(list(res))
            if act == "crash_after":
                S.crash()
            return res

        w.__name__ = name
        setattr(P, name, w)

    for name, kind in [
        ("read_text", "read_text"),
        ("read_bytes", "read_bytes"),
        ("write_text", "write_text"),
        ("write_bytes", "write_bytes"),
        ("exists", "exists"),
        ("rename", "rename"),
        ("replace", "replace"),
        ("unlink", "unlink"),
        ("mkdir", "mkdir"),
        ("glob", "glob"),
        ("rglob", "glob"),
        ("iterdir", "iterdir"),
    ]:
        wrap(name, kind)

    # -- os-level calls made directly by inline_snapshot modules (not by pathlib on their behalf)
    def wrap_os(name, kind, path_arg=0):
        orig = getattr(os, name)

        def w(*a, **k):
            if not Seams.caller_is_sut():
                return orig(*a, **k)
            target = a[path_arg] if len(a) > path_arg else None
            rel = S.relevant_path(target) if isinstance(target, (str, bytes, os.PathLike)) else None
            if rel is None and kind != "fsync":
                return orig(*a, **k)
            act = S.event(kind, rel if rel is not None else "<fd>")
            if act == "oserror":
                code = ERRNO_FOR.get(kind)
                if code is not None:
                    raise OSError(code, os.strerror(code))
            res = orig(*a, **k)
            if act == "crash_after":
                S.crash()
            return res

        setattr(os, name, w)

    wrap_os("replace", "replace", 1)
    wrap_os("rename", "rename", 1)
    wrap_os("unlink", "unlink", 0)
    wrap_os("remove", "unlink", 0)
    wrap_os("fsync", "fsync", 0)

    # -- a module-level ``open`` for inline_snapshot modules (shadows the builtin there only)
    class FakeFile:
        def __init__(self, real, rel):
            self._real = real
            self._rel = rel

        def write(self, data):
            act = S.event("write", self._rel)
            if act == "oserror":
                raise OSError(errno.ENOSPC, os.strerror(errno.ENOSPC))
            if act == "short_write":
                self._real.write(data[: len(data) // 2])
                self._real.flush()
                S.crash()
            n = self._real.write(data)
            if act == "crash_after":
                self._real.flush()
                S.crash()
            return n

        def __enter__(self):
            return self

        def __exit__(self, *exc):
            self._real.close()
            return False

        def __getattr__(self, name):
            return getattr(self._real, name)

    def fake_open(file, mode="r", *a, **k):
        rel = S.relevant_path(file) if isinstance(file, (str, bytes, os.PathLike)) else None
        if rel is None:
            return builtins.open(file, mode, *a, **k)
        writing = any(c in mode for c in "wax+")
        kind = "open_trunc" if "w" in mode else ("open_write" if writing else "open")
        act = S.event(kind, rel)
        if act == "oserror":
            raise OSError(errno.EACCES, os.strerror(errno.EACCES), os.fspath(file))
        real = builtins.open(file, mode, *a, **k)
        if act == "crash_after":
            S.crash()
        if writing:
            return FakeFile(real, rel)
        return real

    for name, mod in list(sys.modules.items()):
        if name.startswith("inline_snapshot") and mod is not None:
            if "open" not in vars(mod) or vars(mod).get("open") is builtins.open:
                mod.open = fake_open
    return S


# ----------------------------------------------------------------------
# the formatter as a simulated party


def _black_mode(mode):
    import black

    m = black.FileMode()
    if mode:
        if "line_length" in mode:
            m.line_length = mode["line_length"]
        if "magic_trailing_comma" in mode:
            m.magic_trailing_comma = mode["magic_trailing_comma"]
        if "string_normalization" in mode:
            m.string_normalization = mode["string_normalization"]
        if mode.get("preview"):
            m.preview = True
    return m


def stub_format(stub, mode, text):
    """A healthy format-command: deterministic, idempotent, AST-preserving."""
    import black

    if stub == "identity":
        return text
    out = black.format_str(text, mode=_black_mode(mode))  # raises on code it cannot parse, like `black -` exiting non-zero
    if stub == "requote":
        out = _requote(out)
    if stub == "black-crlf":
        # a formatter configured for windows line ends (e.g. ruff format with line-ending = "cr-lf")
        out = out.replace("\r\n", "\n").replace("\n", "\r\n")
    return out


def _requote(text):
    """a formatter with another opinion about quotes: plain "..." literals become '...' where no escaping changes"""
    import io
    import tokenize

    toks = []
    for t in tokenize.generate_tokens(io.StringIO(text).readline):
        s = t.string
        if t.type == tokenize.STRING and s.startswith('"') and not s.startswith('"""') and "'" not in s and "\\" not in s and len(s) >= 2:
            s = "'" + s[1:-1] + "'"
        toks.append((t.type, s, t.start, t.end, t.line))
    # same lengths -> positions stay valid
    return tokenize.untokenize(toks)


def install_formatter(S: Seams, fmt):
    """fmt: {"kind": "black"|"absent"|"raises"|"cmd", ...}; faults on formatter calls come from S.plan."""
    import inline_snapshot._format as F

    kind = fmt.get("kind", "black")
    if kind == "absent":
        sys.modules["black"] = None
        return

    import black

    real_format_str = black.format_str

    if kind in ("black", "raises"):
        always = set(fmt.get("at", [])) if kind == "raises" else set()
        frag_at = set(fmt.get("fragments_at", [])) if kind == "raises" else set()
        frag_calls = [0]
        transient = [False]

        def format_str(src, *, mode):
            k = S.fmt_calls
            S.fmt_calls += 1
            act = S.event("fmt_black", f"call{k}")
            if frag_at and "simlib" not in src:
                # a fragment (one generated value), not a whole file (every generated file imports simlib): black chokes on some of them only
                fk = frag_calls[0]
                frag_calls[0] += 1
                if fk in frag_at:
                    raise RuntimeError("injected: black failed for this fragment")
            if fmt.get("transient_whole_file") and "simlib" in src and not transient[0]:
                # a transient failure: the first time black is handed a whole file that it would change (the new, not yet formatted content - the
                # originals of such a run are fixed points of black) it fails; every later call works
                if real_format_str(src, mode=mode) != src:
                    transient[0] = True
                    raise RuntimeError("injected: black failed once (transient)")
            if act == "fmt_raise" or k in always or fmt.get("always"):
                raise RuntimeError("injected: black failed")
            if act == "fmt_black_truncated":
                # the formatter hands back text that is broken beyond doubt (cut off, with brackets left open): a cut that happens to parse
                # (`True` -> `Tr`) is indistinguishable from a formatter's legitimate answer and would be an unfair fault
                return real_format_str(src, mode=mode)[: max(1, len(src) // 2)] + " ((["
            return real_format_str(src, mode=mode)

        black.format_str = format_str
        return

    if kind == "cmd":
        stub = fmt.get("stub", "black")
        mode = fmt.get("mode")

        class Result:
            def __init__(self, rc, out, err=b""):
                self.returncode = rc
                self.stdout = out
                self.stderr = err

        # the pipes of subprocess.run behave like the real ones: bytes unless text / universal_newlines / encoding / errors is given; in text mode
        # the input is encoded and the output decoded with the given encoding or else with the *locale* encoding, which is an environment seam
        # of the session (fmt["locale"], default utf-8), and line ends of the output are translated to "\n"
        locale_enc = fmt.get("locale") or "utf-8"
        partial_calls = set(fmt.get("exit1_partial_at") or [])

        class FakeSp:
            PIPE, STDOUT, DEVNULL = -1, -2, -3

            @staticmethod
            def run(cmd, shell=False, input=None, capture_output=False, **kw):
                text_mode = bool(kw.get("text") or kw.get("universal_newlines") or kw.get("encoding") or kw.get("errors"))
                enc = kw.get("encoding") or locale_enc
                errs = kw.get("errors") or "strict"
                if text_mode:
                    if not isinstance(input, str):
                        raise TypeError("a str is required for the input of a text-mode pipe, not " + type(input).__name__)
                    raw_in = input.encode(enc, errs)
                else:
                    if not isinstance(input, (bytes, bytearray, memoryview)):
                        raise TypeError("a bytes-like object is required, not " + type(input).__name__)
                    raw_in = bytes(input)

                def result(rc, out, err=b""):
                    if text_mode:
                        out = out.decode(enc, errs).replace("\r\n", "\n").replace("\r", "\n")
                        err = err.decode(enc, errs).replace("\r\n", "\n").replace("\r", "\n")
                    return Result(rc, out, err)

                k = S.fmt_calls
                S.fmt_calls += 1
                act = S.event("fmt_cmd", f"call{k}")
                if act == "fmt_exit1":
                    # (the message of a real tool: brackets that rich would read as markup tags)
                    return result(1, b"", b"injected: formatter exit 1 - cannot format values[/2] [bold]here\n")
                if act == "fmt_garbage":
                    return result(0, b"def broken(:\n  <<< not python >>>\n")
                if act == "fmt_empty":
                    return result(0, b"")
                try:
                    text = raw_in.decode("utf-8")  # the formatter reads its standard input as UTF-8 source, like black does
                except UnicodeDecodeError as e:
                    return result(123, b"", f"error: cannot format -: {e}\n".encode())
                if act == "fmt_exit1_partial" or k in partial_calls:
                    # the formatter gives up with a non-zero exit status after it has written a part of its answer that happens to be valid
                    # Python (a streaming formatter that meets syntax it does not know; `Terminated` printed by a wrapper script)
                    S.fired_extra = getattr(S, "fired_extra", 0) + 1
                    cut = text.rfind("\n\ndef ", 0, max(len(text) * 2 // 3, 1))
                    partial = text[: cut + 1] if cut > 0 else "Terminated\n"
                    return result(1, partial.encode("utf-8"), b"error: cannot format -: giving up\n")
                if act == "fmt_killed":
                    # the formatter is killed by a signal (negative return code) after it flushed a part of its output that happens to
                    # end at a statement boundary: the flushed text parses, but it is not the answer
                    cut = text.rfind("\n\ndef ", 0, max(len(text) * 2 // 3, 1))
                    partial = text[: cut + 1] if cut > 0 else text[: text.find("\n") + 1]
                    return result(-9, partial.encode("utf-8"), b"")
                try:
                    out = stub_format(stub, mode, text)
                except Exception as e:
                    return result(123, b"", f"error: cannot format -: {e}\n".encode())
                if act == "fmt_nonutf8":
                    # the formatter writes its answer in a legacy 8-bit encoding (a windows code page on the pipe): for text with non-ASCII
                    # characters the bytes are not UTF-8 - garbage output with exit status 0
                    # (fair fault: only when the bytes really are not UTF-8; an answer that cannot be written in that code page, or whose bytes
                    #  happen to be valid UTF-8, would be indistinguishable from a legitimate answer or is a plain failure of the command)
                    try:
                        raw = out.encode("cp1252")
                    except UnicodeEncodeError as e:
                        return result(1, b"", f"UnicodeEncodeError: {e}\n".encode())
                    try:
                        raw.decode("utf-8")
                    except UnicodeDecodeError:
                        return result(0, raw)
                    S.no_effect()
                    return result(0, out.encode("utf-8"))
                return result(0, out.encode("utf-8"))

        F.sp = FakeSp
        return
    raise ValueError(kind)
