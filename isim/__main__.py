"""python -m isim check <ID> [--tier quick|thorough] | replay <file> | selftest | sensitivity"""
import argparse
import os
import sys


def main(argv=None):
    ap = argparse.ArgumentParser(prog="isim")
    sub = ap.add_subparsers(dest="cmd", required=True)
    c = sub.add_parser("check")
    c.add_argument("prop")
    c.add_argument("--tier", default=os.environ.get("VERIF_TIER") or "quick", choices=["quick", "thorough"])
    c.add_argument("--count", type=int)
    c.add_argument("--jobs", type=int)
    c.add_argument("--seed", type=int)
    c.add_argument("--no-evidence", action="store_true")
    r = sub.add_parser("replay")
    r.add_argument("file")
    s = sub.add_parser("selftest")
    s.add_argument("--props", default="")
    s.add_argument("--n", type=int, default=24)
    sub.add_parser("setup")
    a = ap.parse_args(argv)
    if a.cmd == "check":
        from . import runner

        rc, _ = runner.check(a.prop.upper(), a.tier, a.seed, a.jobs, a.count, write_evidence=not a.no_evidence)
        return rc
    if a.cmd == "replay":
        from . import runner

        ok, o = runner.replay_file(a.file)
        for v in o["violations"]:
            print(f"  violation clause={v['clause']} sig={v['sig']}\n    {v.get('detail', '')[:2000]}")
        if ok:
            print("REPRODUCED")
            return 1
        print("NOT-REPRODUCED")
        return 0
    if a.cmd == "selftest":
        from . import selftest

        return selftest.main(a.props.split(",") if a.props else None, a.n)
    if a.cmd == "setup":
        from . import selftest

        return selftest.setup()
    return 2


if __name__ == "__main__":
    sys.exit(main())
