"""isim - deterministic simulation with fault injection for inline-snapshot (see /verif/DESIGN.md)."""
