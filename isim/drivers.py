"""Session executors.  Every function here runs a *session* in a forked child of a warm worker
and returns a JSON result; only the world directory (plugin) / the returned files (inline) survive.

drivers:
  plugin    real pytest + the real inline-snapshot plugin from /repo/src, in the world directory
  inline    inline_snapshot.testing.Example.run_inline, unmodified
  readback  the disabled path: test modules executed with no active snapshot state (snapshot(x) is x)
  cold      `python -m pytest` subprocess, no harness code in that process
"""
import io
import json
import os
import re
import subprocess
import sys

from . import seams as seams_mod
from .world import HarnessError, fork_run, read_tree, write_tree

CI_VARS = ["CI", "bamboo.buildKey", "BUILD_ID", "BUILD_NUMBER", "BUILDKITE", "CIRCLECI", "CONTINUOUS_INTEGRATION",
           "GITHUB_ACTIONS", "HUDSON_URL", "JENKINS_URL", "TEAMCITY_VERSION", "TRAVIS"]
CLEAN_VARS = CI_VARS + ["PYCHARM_HOSTED", "INLINE_SNAPSHOT_DEFAULT_FLAGS", "FORCE_COLOR", "NO_COLOR", "PYTEST_ADDOPTS",
                        "PYTEST_CURRENT_TEST", "TTY_COMPATIBLE", "TTY_INTERACTIVE", "COLUMNS", "LINES"]
CATEGORIES = ["create", "fix", "trim", "update"]

REPO_SRC = os.path.realpath(os.environ.get("VERIF_REPO", "/repo") + "/src")


def assert_sut_is_repo():
    import inline_snapshot

    p = os.path.realpath(inline_snapshot.__file__)
    if not p.startswith(REPO_SRC + os.sep):
        raise HarnessError(f"inline_snapshot is imported from {p}, expected below {REPO_SRC}")


def simlib_text():
    here = os.path.dirname(os.path.abspath(__file__))
    with open(os.path.join(here, "simlib_template.py"), encoding="utf-8") as f:
        return f.read()


def _base_env(env_delta):
    for k in CLEAN_VARS:
        os.environ.pop(k, None)
    os.environ["TERM"] = "unknown"
    os.environ["COLUMNS"] = "120"
    os.environ["PYTEST_DISABLE_PLUGIN_AUTOLOAD"] = "1"
    os.environ["PYTHONDONTWRITEBYTECODE"] = "1"
    for k, v in (env_delta or {}).items():
        if v is None:
            os.environ.pop(k, None)
        else:
            os.environ[k] = v


def _redirect(out_path):
    sys.stdout.flush()
    sys.stderr.flush()
    fd = os.open(out_path, os.O_WRONLY | os.O_CREAT | os.O_TRUNC, 0o644)
    os.dup2(fd, 1)
    os.dup2(fd, 2)
    os.close(fd)
    devnull = os.open(os.devnull, os.O_RDONLY)
    os.dup2(devnull, 0)
    os.close(devnull)
    sys.stdout = io.TextIOWrapper(os.fdopen(1, "wb", closefd=False), encoding="utf-8", errors="replace", line_buffering=True)
    sys.stderr = io.TextIOWrapper(os.fdopen(2, "wb", closefd=False), encoding="utf-8", errors="replace", line_buffering=True)


def _purge_modules():
    for name in list(sys.modules):
        if name == "simlib" or name.startswith("test_") or name == "conftest":
            del sys.modules[name]


def _install_answers(answers, asked):
    """answers: {category: bool}; the prompt names the category"""
    from rich.prompt import Confirm

    def ask(prompt="", *a, **k):
        m = re.search(r"categories/#(\w+)\]", str(prompt)) or re.search(r"Do you want to (?:\[[^\]]*\])?(\w+)", str(prompt))
        cat = m.group(1) if m else "?"
        ans = bool((answers or {}).get(cat, False))
        asked.append([cat, ans])
        print(f"<<prompt {cat} -> {'y' if ans else 'n'}>>")
        return ans

    Confirm.ask = staticmethod(ask)


def _read_trace(path):
    trace, fired = [], []
    try:
        with open(path, encoding="utf-8") as f:
            for line in f:
                parts = line.rstrip("\n").split("\t")
                if parts[0] == "!noeffect":
                    # the fault of that index fired but could not take effect: not a fault that happened
                    fired[:] = [x for x in fired if x[0] != int(parts[1])]
                elif parts[0] == "!fired":
                    fired.append([int(parts[1]), parts[2]])
                else:
                    trace.append([int(parts[0]), parts[1], parts[2], parts[3]])
    except FileNotFoundError:
        pass
    return trace, fired


# ======================================================================= plugin


def _plugin_child(world, spec, out_path, trace_path):
    import pytest

    os.chdir(world)
    if spec.get("from_parent"):
        # the user starts pytest one directory above the project and names the project directory on the command line
        os.chdir(os.path.dirname(world))
    elif spec.get("from_sibling"):
        # ... or in a directory next to the project (the test files are not below the current directory)
        d = os.path.join(os.path.dirname(world), "elsewhere-" + os.path.basename(world))
        os.makedirs(d, exist_ok=True)
        os.chdir(d)
        # the start directory may be a project of its own (a workspace root, a neighbouring checkout) with its own configuration
        pp = os.path.join(d, "pyproject.toml")
        if spec.get("start_pyproject") is not None:
            with open(pp, "w") as fh:
                fh.write(spec["start_pyproject"])
        elif os.path.exists(pp):
            os.unlink(pp)
    sys.dont_write_bytecode = not spec.get("bytecode")
    _base_env(spec.get("env"))
    if spec.get("bytecode"):
        # histories over a persistent directory: __pycache__ (CPython's and pytest's rewritten .pyc) survives between sessions
        os.environ.pop("PYTHONDONTWRITEBYTECODE", None)
    _redirect(out_path)
    _purge_modules()
    assert_sut_is_repo()
    tfd = os.open(trace_path, os.O_WRONLY | os.O_CREAT | os.O_TRUNC | os.O_APPEND, 0o644)
    roots = [world] + list(spec.get("roots", []))
    S = seams_mod.Seams(roots, spec.get("plan"), tfd, spec.get("dir_seed"))
    seams_mod.install(S)
    seams_mod.install_formatter(S, spec.get("fmt") or {"kind": "black"})
    asked = []
    if spec.get("real_stdin") is None:
        _install_answers(spec.get("answers"), asked)
    else:
        # the real prompt path: rich.prompt.Confirm reads the scripted lines from fd 0
        r_fd, w_fd = os.pipe()
        os.write(w_fd, spec["real_stdin"].encode())
        os.close(w_fd)
        os.dup2(r_fd, 0)
        os.close(r_fd)
        sys.stdin = io.TextIOWrapper(os.fdopen(0, "rb", closefd=False), encoding="utf-8")

    res = {"tests": {}, "finish_exc": None, "main_exc": None, "collected": []}

    class HarnessPlugin:
        def pytest_collection_modifyitems(self, items):
            S.phase = "collected"
            res["collected"] = [i.nodeid for i in items]

        def pytest_runtest_setup(self, item):
            S.phase = "test:" + item.name

        def pytest_runtest_logreport(self, report):
            d = res["tests"].setdefault(report.nodeid, {})
            d[report.when] = report.outcome
            if report.outcome == "failed":
                d[report.when + "_msg"] = str(report.longrepr)[-600:]
            if getattr(report, "wasxfail", None) is not None:
                d["xfail"] = True

        @pytest.hookimpl(hookwrapper=True, tryfirst=True)
        def pytest_sessionfinish(self, session, exitstatus):
            S.phase = "finish"
            res["exitstatus_at_finish"] = int(exitstatus)
            outcome = yield
            if outcome.excinfo is not None:
                import traceback

                res["finish_exc"] = "".join(traceback.format_exception(*outcome.excinfo))[-40000:]

    argv = ["-p", "inline_snapshot.pytest_plugin", "-p", "no:cacheprovider", "-p", "no:xdist"]
    if spec.get("xdist") is not None:
        # xdist loaded; "-n 0" means: plugin present but not distributing
        argv = ["-p", "inline_snapshot.pytest_plugin", "-p", "no:cacheprovider", "-p", "xdist", "-n", str(spec["xdist"])]
    if spec.get("pytester"):
        argv += ["-p", "pytester"]
    if spec.get("asyncio"):
        argv += ["-p", "pytest_asyncio.plugin"]  # async def tests run as asyncio tasks
    flags = spec.get("flags")
    if flags is not None:
        argv.append("--inline-snapshot=" + flags)
    argv += spec.get("argv", [])
    if spec.get("from_parent"):
        argv.append(os.path.basename(world))
    elif spec.get("from_sibling"):
        argv.append(os.path.join("..", os.path.basename(world)))  # cwd is ../elsewhere-<world>
    argv += ["-q", "-rA", "--tb=short"]
    rc = None
    try:
        rc = pytest.main(argv, plugins=[HarnessPlugin()])
        rc = int(rc)
    except BaseException as e:  # an exception leaving pytest.main (e.g. from session-finish)
        import traceback

        res["main_exc"] = "".join(traceback.format_exception(type(e), e, e.__traceback__))[-40000:]
    sys.stdout.flush()
    sys.stderr.flush()
    res["rc"] = rc
    sl = sys.modules.get("simlib")
    res["rec"] = list(getattr(sl, "REC", [])) if sl is not None else []
    res["asked"] = asked
    res["nseam"] = S.n
    from inline_snapshot import _global_state

    res["state_depth"] = len(_global_state._latest_global_states)
    return res


def run_plugin(world, spec, scratch, timeout=60.0):
    """-> dict(status, rc, tests, rec, out, trace, fired, ...)"""
    out_path = os.path.join(scratch, "out.txt")
    trace_path = os.path.join(scratch, "trace.txt")
    for p in (out_path, trace_path):
        try:
            os.unlink(p)
        except FileNotFoundError:
            pass
    status, res = fork_run(lambda: _plugin_child(world, spec, out_path, trace_path), timeout)
    res = res or {}
    res["status"] = status
    try:
        with open(out_path, encoding="utf-8", errors="replace") as f:
            res["out"] = f.read()
    except FileNotFoundError:
        res["out"] = ""
    res["trace"], res["fired"] = _read_trace(trace_path)
    return res


def report_categories(out):
    """categories that the full report shows a section for"""
    cats = []
    for c in CATEGORIES:
        if re.search(rf"[-─]+\s*{c.capitalize()} snapshots\s*[-─]+", out):
            cats.append(c)
    return cats


# ======================================================================= inline


class Capture:
    """stands for a snapshot in Example's keyword arguments: records the other operand"""

    def __init__(self):
        self.value = None
        self.seen = False

    def __eq__(self, other):
        self.value = other
        self.seen = True
        return True

    __hash__ = None


def _inline_child(files, spec, scratch, out_path, trace_path):
    import tempfile
    import types

    sys.dont_write_bytecode = True
    _base_env(spec.get("env"))
    _redirect(out_path)
    _purge_modules()
    assert_sut_is_repo()
    tmproot = os.path.join(scratch, "tmp")
    os.makedirs(tmproot, exist_ok=True)
    counter = [0]

    def mkdtemp(suffix=None, prefix=None, dir=None):
        counter[0] += 1
        d = os.path.join(tmproot, f"d{counter[0]}")
        os.makedirs(d)
        return d

    tempfile.mkdtemp = mkdtemp
    # the directory is the durable state of the session: keep it, the harness reads its bytes (newlines!) afterwards
    tempfile.TemporaryDirectory.cleanup = lambda self: None
    tempfile.TemporaryDirectory._cleanup = classmethod(lambda cls, *a, **k: None)  # the weakref finalizer
    # simlib is importable by the exec'ed modules
    sl = types.ModuleType("simlib")
    sl.__file__ = os.path.join(tmproot, "simlib.py")
    exec(compile(simlib_text(), sl.__file__, "exec"), sl.__dict__)
    sys.modules["simlib"] = sl

    from inline_snapshot import _config, _global_state
    from inline_snapshot.testing import Example

    _config.config = _config.Config()
    for k, v in (spec.get("config") or {}).items():
        setattr(_config.config, k, v)

    tfd = os.open(trace_path, os.O_WRONLY | os.O_CREAT | os.O_TRUNC | os.O_APPEND, 0o644)
    S = seams_mod.Seams([tmproot], spec.get("plan"), tfd, spec.get("dir_seed"))
    seams_mod.install(S)
    seams_mod.install_formatter(S, spec.get("fmt") or {"kind": "black"})

    depth0 = len(_global_state._latest_global_states)
    cats, raises, changed = Capture(), Capture(), Capture()
    res = {"exc": None}
    args = []
    if spec.get("flags") is not None:
        args = ["--inline-snapshot=" + spec["flags"]]
    new_files = None
    try:
        ex = Example({k: v for k, v in files.items()})
        new = ex.run_inline(args, reported_categories=cats, raises=raises, changed_files=changed)
        new_files = dict(new.files)
        d = os.path.join(tmproot, "d1")
        if os.path.isdir(d):
            res["files_b"] = {k: v.decode("latin-1") for k, v in read_tree(d).items() if not k.startswith(".storage")}
    except BaseException as e:
        import traceback

        res["exc"] = type(e).__name__
        res["exc_tb"] = "".join(traceback.format_exception(type(e), e, e.__traceback__))[-40000:]
        # the durable state is what is in the directory
        d = os.path.join(tmproot, "d1")
        if os.path.isdir(d):
            new_files = {k: v.decode("utf-8", "replace") for k, v in read_tree(d).items() if not k.startswith(".storage")}
            res["files_b"] = {k: v.decode("latin-1") for k, v in read_tree(d).items() if not k.startswith(".storage")}
    res["files"] = new_files
    res["categories"] = sorted(cats.value) if cats.seen else None
    res["raises"] = raises.value if raises.seen else None
    res["changed"] = changed.value if changed.seen else None
    res["rec"] = list(sl.REC)
    res["state_depth_delta"] = len(_global_state._latest_global_states) - depth0
    res["active_after"] = bool(_global_state.state().active)
    res["nseam"] = S.n
    sys.stdout.flush()
    return res


def run_inline(files, spec, scratch, timeout=60.0):
    out_path = os.path.join(scratch, "out.txt")
    trace_path = os.path.join(scratch, "trace.txt")
    import shutil

    shutil.rmtree(os.path.join(scratch, "tmp"), ignore_errors=True)
    for p in (out_path, trace_path):
        try:
            os.unlink(p)
        except FileNotFoundError:
            pass
    status, res = fork_run(lambda: _inline_child(files, spec, scratch, out_path, trace_path), timeout)
    res = res or {}
    res["status"] = status
    try:
        with open(out_path, encoding="utf-8", errors="replace") as f:
            res["out"] = f.read()
    except FileNotFoundError:
        res["out"] = ""
    res["trace"], res["fired"] = _read_trace(trace_path)
    return res


# ======================================================================= read-back (disabled path)


def _readback_child(world, spec, out_path):
    import traceback

    os.chdir(world)
    sys.dont_write_bytecode = True
    _base_env(None)
    _redirect(out_path)
    _purge_modules()
    assert_sut_is_repo()
    sys.path.insert(0, world)
    from inline_snapshot import _external, _global_state

    st = _global_state.state()
    if st.active:
        raise HarnessError("read-back child started with an active snapshot state")
    st.storage = _external.DiscStorage(os.path.join(world, spec.get("storage", ".inline-snapshot/external")))
    res = {"tests": {}, "import_exc": {}}
    names = sorted(n for n in os.listdir(world) if n.startswith("test_") and n.endswith(".py"))
    for fn in names:
        g = {"__name__": fn[:-3], "__file__": os.path.join(world, fn)}
        try:
            with open(os.path.join(world, fn), encoding="utf-8") as f:
                src = f.read()
            exec(compile(src, os.path.join(world, fn), "exec"), g)
        except BaseException as e:
            res["import_exc"][fn] = type(e).__name__ + ": " + str(e)[:300]
            continue
        tests = [(k, v) for k, v in g.items() if k.startswith("test_") and callable(v)]
        for k, v in tests:
            try:
                v()
                res["tests"][f"{fn}::{k}"] = "passed"
            except BaseException as e:
                res["tests"][f"{fn}::{k}"] = "failed:" + type(e).__name__
                res.setdefault("msgs", {})[f"{fn}::{k}"] = "".join(traceback.format_exception_only(type(e), e))[-400:]
    sl = sys.modules.get("simlib")
    res["rec"] = list(getattr(sl, "REC", [])) if sl is not None else []
    return res


def run_readback(files, spec, scratch, timeout=60.0):
    """run the tests of `files` (name -> text/bytes, incl. simlib.py and storage files) on a private copy, disabled"""
    import shutil

    world = os.path.join(scratch, "rb")
    shutil.rmtree(world, ignore_errors=True)
    write_tree(world, files)
    out_path = os.path.join(scratch, "rb_out.txt")
    status, res = fork_run(lambda: _readback_child(world, spec or {}, out_path), timeout)
    res = res or {}
    res["status"] = status
    try:
        with open(out_path, encoding="utf-8", errors="replace") as f:
            res["out"] = f.read()
    except FileNotFoundError:
        res["out"] = ""
    shutil.rmtree(world, ignore_errors=True)
    return res


# ======================================================================= cold subprocess


def run_cold(world, spec, timeout=120.0):
    env = {k: v for k, v in os.environ.items() if k not in CLEAN_VARS}
    env["TERM"] = "unknown"
    env["COLUMNS"] = "120"
    env["PYTHONDONTWRITEBYTECODE"] = "1"
    env["PYTHONHASHSEED"] = str(spec.get("hashseed", 0))
    env.pop("PYTEST_DISABLE_PLUGIN_AUTOLOAD", None)
    for k, v in (spec.get("env") or {}).items():
        if v is None:
            env.pop(k, None)
        else:
            env[k] = v
    cmd = [sys.executable, "-m", "pytest", "-p", "no:cacheprovider", "-q", "-rA", "--tb=short"]
    if spec.get("flags") is not None:
        cmd.append("--inline-snapshot=" + spec["flags"])
    cmd += spec.get("argv", [])
    stdin = spec.get("stdin")
    try:
        p = subprocess.run(cmd, cwd=world, env=env, input=stdin if stdin is not None else b"", capture_output=True, timeout=timeout)
    except subprocess.TimeoutExpired:
        return {"status": "timeout", "rc": None, "out": ""}
    out = p.stdout.decode("utf-8", "replace") + p.stderr.decode("utf-8", "replace")
    tests = {}
    for m in re.finditer(r"^(PASSED|FAILED|ERROR|XFAIL|XPASS|SKIPPED)\s+(\S+)", out, re.M):
        tests.setdefault(m.group(2), []).append(m.group(1))
    return {"status": "ok", "rc": p.returncode, "out": out, "tests": tests}


# ======================================================================= warm-up

_WARM = False

WARM_TEST = '''\
from inline_snapshot import snapshot

def test_w():
    assert [1, "a"] == snapshot()
    assert 5 <= snapshot(7)
'''


def warm_up(scratch):
    """One fixed session of each driver in a throw-away directory, in *this* process, so that forked
    children start with warm caches.  The program is constant, so the state it leaves behind
    (change-id counter, caches keyed by the warm-up path) is identical in every worker."""
    global _WARM
    if _WARM:
        return
    import shutil

    import black  # noqa
    import pytest

    assert_sut_is_repo()
    d = os.path.join(scratch, "warm")
    shutil.rmtree(d, ignore_errors=True)
    os.makedirs(d)
    write_tree(d, {"test_warm.py": WARM_TEST})
    cwd = os.getcwd()
    saved_env = dict(os.environ)
    saved_out, saved_err = sys.stdout, sys.stderr
    sink = io.StringIO()
    try:
        os.chdir(d)
        _base_env(None)
        sys.stdout = sys.stderr = sink
        sys.dont_write_bytecode = True
        pytest.main(["-p", "inline_snapshot.pytest_plugin", "-p", "no:cacheprovider", "-p", "no:xdist", "--inline-snapshot=create,fix",
                     "-q", "-p", "no:terminal"], plugins=[])
        from inline_snapshot.testing import Example

        try:
            Example({"test_warm.py": WARM_TEST}).run_inline(["--inline-snapshot=create,fix"])
        except Exception:
            pass
    finally:
        sys.stdout, sys.stderr = saved_out, saved_err
        os.chdir(cwd)
        os.environ.clear()
        os.environ.update(saved_env)
        _purge_modules()
        for name in list(sys.modules):
            if name.startswith("test_warm"):
                del sys.modules[name]
        shutil.rmtree(d, ignore_errors=True)
    from inline_snapshot import _global_state

    if _global_state._latest_global_states or _global_state.state().active:
        raise HarnessError("warm-up left snapshot state behind")
    _WARM = True


# ======================================================================= external lookup probe


def _extprobe_child(world, storage_rel, names):
    os.chdir(world)
    assert_sut_is_repo()
    from inline_snapshot import _external, _global_state

    st = _global_state.state()
    st.storage = _external.DiscStorage(os.path.join(world, storage_rel))
    out = {}
    import hashlib

    for n in names:
        try:
            data = _external.external(n)._load_value()
            out[n] = ["ok", hashlib.sha256(data).hexdigest()]
        except BaseException as e:
            out[n] = ["exc", type(e).__name__]
    return out


def run_extprobe(files, storage_rel, names, scratch, timeout=30.0):
    """load external(name) for every name through the real lookup code, on a private copy of the tree"""
    import shutil

    world = os.path.join(scratch, "xp")
    shutil.rmtree(world, ignore_errors=True)
    write_tree(world, files)
    status, res = fork_run(lambda: _extprobe_child(world, storage_rel, names), timeout)
    shutil.rmtree(world, ignore_errors=True)
    if status != "ok":
        raise HarnessError(f"external probe child: {status}")
    return res


# ======================================================================= Example.run_pytest (third executor)


def _runpytest_child(files, spec, scratch, out_path):
    import tempfile

    sys.dont_write_bytecode = True
    _base_env(spec.get("env"))
    os.environ.pop("PYTEST_DISABLE_PLUGIN_AUTOLOAD", None)  # the helper starts a plain `python -m pytest`; the plugin is found through its entry point
    os.environ["PYTHONHASHSEED"] = "0"
    _redirect(out_path)
    _purge_modules()
    assert_sut_is_repo()
    tmproot = os.path.join(scratch, "tmp")
    os.makedirs(tmproot, exist_ok=True)
    counter = [0]

    def mkdtemp(suffix=None, prefix=None, dir=None):
        counter[0] += 1
        d = os.path.join(tmproot, f"p{counter[0]}")
        os.makedirs(d)
        return d

    tempfile.mkdtemp = mkdtemp
    from inline_snapshot.testing import Example

    changed, report, rc, stderr = Capture(), Capture(), Capture(), Capture()
    args = ["-p", "no:cacheprovider"]
    if spec.get("flags") is not None:
        args.append("--inline-snapshot=" + spec["flags"])
    res = {"exc": None}
    try:
        new = Example(dict(files)).run_pytest(args, changed_files=changed, report=report, returncode=rc, term_columns=160)
        res["files"] = dict(new.files)
    except BaseException as e:
        import traceback

        res["exc"] = type(e).__name__
        res["exc_tb"] = "".join(traceback.format_exception(type(e), e, e.__traceback__))[-40000:]
        res["files"] = None
    res["changed"] = changed.value if changed.seen else None
    res["report"] = report.value if report.seen else None
    res["rc"] = rc.value if rc.seen else None
    return res


def run_runpytest(files, spec, scratch, timeout=180.0):
    import shutil

    out_path = os.path.join(scratch, "out.txt")
    shutil.rmtree(os.path.join(scratch, "tmp"), ignore_errors=True)
    status, res = fork_run(lambda: _runpytest_child(files, spec, scratch, out_path), timeout)
    res = res or {}
    res["status"] = status
    try:
        with open(out_path, encoding="utf-8", errors="replace") as f:
            res["out"] = f.read()
    except FileNotFoundError:
        res["out"] = ""
    return res
