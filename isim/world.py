"""Durable state (a project directory on tmpfs) and the one-fork-per-session process model.

Only the directory survives a session, a crash or a restart.  A session is a
function executed in a forked child; the child reports through a pipe and
leaves with os._exit, so Python-level buffers are not flushed and no
``finally`` block of the system under test runs after an injected crash - the
same as SIGKILL.
"""
import hashlib
import json
import os
import select
import shutil
import signal
import sys
import time
import traceback

SCRATCH_ROOT = "/dev/shm" if os.path.isdir("/dev/shm") else "/var/tmp"
CRASH_RC = 137


class HarnessError(Exception):
    """A problem of the simulator itself: never a pass, never a VIOLATION."""


def scratch_dir(tag):
    d = os.path.join(SCRATCH_ROOT, f"isim-{os.getpid()}-{tag}")
    shutil.rmtree(d, ignore_errors=True)
    os.makedirs(d)
    return d


def read_tree(root):
    """relative path -> bytes for every regular file below root (sorted, no __pycache__)."""
    out = {}
    for dirpath, dirnames, filenames in os.walk(root):
        dirnames[:] = sorted(d for d in dirnames if d != "__pycache__" and d != ".pytest_cache")
        for fn in sorted(filenames):
            p = os.path.join(dirpath, fn)
            rel = os.path.relpath(p, root)
            with open(p, "rb") as f:
                out[rel] = f.read()
    return dict(sorted(out.items()))


def write_tree(root, files):
    os.makedirs(root, exist_ok=True)
    for rel, content in files.items():
        p = os.path.join(root, rel)
        os.makedirs(os.path.dirname(p), exist_ok=True)
        if isinstance(content, str):
            content = content.encode("utf-8")
        with open(p, "wb") as f:
            f.write(content)


def reset_tree(root, files):
    shutil.rmtree(root, ignore_errors=True)
    write_tree(root, files)


def tree_digest(files):
    h = hashlib.sha256()
    for rel, content in sorted(files.items()):
        h.update(rel.encode())
        h.update(b"\0")
        h.update(hashlib.sha256(content).digest())
    return h.hexdigest()[:16]


def sha(b):
    if isinstance(b, str):
        b = b.encode("utf-8")
    return hashlib.sha256(b).hexdigest()


def fork_run(fn, timeout=60.0):
    """Run fn() in a forked child.  Returns (status, result).

    status: "ok" (result is what fn returned, JSON round-tripped),
            "crash" (child left with CRASH_RC before reporting: an injected process death),
            "exit:<n>" (child died otherwise without a report), "timeout".
    """
    r, w = os.pipe()
    sys.stdout.flush()
    sys.stderr.flush()
    pid = os.fork()
    if pid == 0:
        # ---- child
        code = 0
        try:
            os.close(r)
            try:
                res = fn()
                payload = json.dumps({"ok": res}).encode()
            except BaseException:
                payload = json.dumps({"err": traceback.format_exc()}).encode()
            view = memoryview(payload)
            while view:
                n = os.write(w, view)
                view = view[n:]
            os.close(w)
        except BaseException:
            code = 3
        finally:
            os._exit(code)
    # ---- parent
    os.close(w)
    chunks = []
    deadline = time.monotonic() + timeout
    timed_out = False
    while True:
        left = deadline - time.monotonic()
        if left <= 0:
            timed_out = True
            break
        ready, _, _ = select.select([r], [], [], min(left, 1.0))
        if ready:
            b = os.read(r, 1 << 16)
            if not b:
                break
            chunks.append(b)
    os.close(r)
    if timed_out:
        try:
            os.kill(pid, signal.SIGKILL)
        except ProcessLookupError:
            pass
        os.waitpid(pid, 0)
        return "timeout", None
    _, st = os.waitpid(pid, 0)
    data = b"".join(chunks)
    if data:
        try:
            msg = json.loads(data)
        except ValueError:
            msg = None
        if msg is not None:
            if "err" in msg:
                raise HarnessError("child raised:\n" + msg["err"])
            return "ok", msg["ok"]
    rc = os.waitstatus_to_exitcode(st)
    if rc == CRASH_RC:
        return "crash", None
    return f"exit:{rc}", None
