"""C07 - a wrong or missing snapshot never yields a green run.

Real pytest sessions (plugin driver; cold subprocess on a sample).  Simulator-owned dimensions: test
order, call sites shared by several tests through helper functions, xfail tests (private inactive
state nested in the session state), flag configurations.  Oracle: per-test reports and the process
exit status against the reference model's verdict per test.
"""
from .. import drivers, sim
from ..gen import program as P
from ..gen import values as V
from ..gen import workload as W
from ..model import MISSING, SessionModel
from ..prng import sub

ID = "C07"
PROBES = ['probe_bad_test', 'probe_bad_site_shared_by_tests', 'tests_judged']  # reach probes: counters that must be non-zero in a run (a zero is printed and recorded)
LEVEL = "exploration"
BUDGET = {"quick": 480, "thorough": 12000}
WALL = {"quick": 300, "thorough": 3000}
TECHNIQUE = "deterministic simulation: seeded test programs and test orders run as real pytest sessions in forked processes; per-test outcomes and exit status checked against a reference model"
LEVEL_TEXT = ("seeded search over programs (position of the wrong / missing snapshot, operation, loops, helpers shared by several tests, raising "
              "and xfail tests) x flag configurations (all category subsets, report, review with answers, short-report, none); every run is a real "
              "pytest session whose per-test reports and exit status are judged by the model; sampling, not proof")
LEVEL_NOTE = "trusted: reference model (plain-Python verdict per test), pytest's own reporting; module-level snapshots are out of the statement's scope"
RULE = ("one run = project (1-2 files, 1-6 tests, 1-6 sites inside test functions or helpers, previous content missing / right / wrong) x flag "
        "configuration x test order; distinct = (operation, flag set, position of the bad site, #tests sharing it, outcome class); non-trivial = at "
        "least one test whose verdict was judged")
RULE += " Dimensions added while testing against seeded changes: comparisons executed by a worker thread that the test starts and joins; async def tests run by pytest-asyncio as tasks; nested in-process sessions incl. one that stops with a usage error (state-stack invariant); xfail(condition=False) and xfail('<false expression>') as ordinary tests; imperative pytest.skip / pytest.xfail after the comparisons; nested in-process sessions; Example-driven tests; numpy-like truth values."
ASSUMPTIONS = ["scope of the statement: snapshots executed inside test functions, copyable values, stable arguments",
               "tests in which a comparison itself raised are not judged", "xfail tests are not judged (they run with a private inactive state)"]
REAL_VS_STUB = {
    "real": ["pytest", "inline_snapshot plugin + library from /repo/src", "process exit status", "cold `python -m pytest` subprocess on a sample"],
    "stub": ["review answers (Confirm.ask answered from the scripted map)", "the user (flags)"],
}
CATS = ["create", "fix", "trim", "update"]


def draw_config(rng):
    r = rng.random()
    if r < 0.45:
        cats = [c for c in CATS if rng.random() < 0.4]
        extra = rng.choice([[], [], ["report"], ["short-report"]])
        return {"flags": ",".join(extra + cats) or None, "answers": None}
    if r < 0.6:
        return {"flags": "review" + "".join("," + c for c in CATS if rng.random() < 0.25), "answers": {c: rng.random() < 0.5 for c in CATS}}
    if r < 0.7:
        return {"flags": None, "answers": None}
    if r < 0.8:
        return {"flags": "report", "answers": None}
    if r < 0.9:
        return {"flags": "short-report", "answers": None}
    return {"flags": ",".join(CATS), "answers": None}


def effective(flags):
    fl = set((flags or "report").split(","))
    if "review" in fl:
        return set(CATS)
    return fl & set(CATS)


def generate(seed, tier="quick"):
    rng = sub(seed, "program")
    prof = V.draw_profile(sub(seed, "profile"), max_depth=2)
    prof.special = [s for s in prof.special if s != "norepr"]
    prog = W.gen_program(rng, prof, {"prev": ["none", "same", "same", "tight", "wrong", "other", "slack", "subset", "superset"],
                                     "places": ["direct", "direct", "func", "func", "lam", "helper_arg"], "n_files": (1, 2), "n_sites": (1, 4),
                                     "n_tests": (1, 4), "styles": ["assert", "assert", "rec"], "raise_events": 0.1})
    prng_ = sub(seed, "param")
    n = 0
    for f in prog["files"]:
        if prng_.random() < 0.35:
            # a parametrised test: one textual call site executed by several test items
            n += 1
            sid = f"ps{n}"
            op = prng_.choice(["le", "ge", "in"])
            params = prng_.sample(range(0, 9), prng_.randint(2, 4))
            arg = prng_.choice([None, None, str(prng_.choice(params)), str(max(params)), str(min(params))])
            if op == "in" and arg is not None:
                arg = "[" + arg + "]"
            f["sites"][sid] = {"op": op, "place": prng_.choice(["direct", "func"]), "arg": arg, "prev": None}
            f["tests"].append({"name": f"test_p{n}", "param": params, "events": [{"t": "cmp", "eid": f"pe{n}", "site": sid, "var": "_p", "style": prng_.choice(["assert", "rec"])}]})
    qrng = sub(seed, "npscalar")
    if qrng.random() < 0.2:
        # values whose comparison operators answer a truthy / falsy object that is not a builtin bool (numpy scalars do that)
        f = prog["files"][0]
        for k in range(qrng.randint(1, 2)):
            n += 1
            sid = f"np{n}"
            op = qrng.choice(["eq", "eq", "le", "ge", "item"])
            old, new = qrng.choice([(2, 2), (2, 3), (3, 2), (1.5, 2.5), (2.5, 1.5)])
            f["sites"][sid] = {"op": op, "place": qrng.choice(["direct", "func"]) if op != "item" else "direct",
                               "arg": f"NP({old!r})" if op != "item" else f'{{"k": NP({old!r})}}', "prev": None}
            e = {"t": "cmp", "eid": f"npe{n}", "site": sid, "vals": [["np", new]], "style": "assert", "reflect": op == "eq" and qrng.random() < 0.3}
            if op == "item":
                e["key"], e["cop"] = ["str", "k"], qrng.choice(["eq", "le"])
            f["tests"].append({"name": f"test_np{n}", "events": [e]})
    erng = sub(seed, "example")
    if erng.random() < 0.15:
        # a test that drives the public testing helper and checks what it changed against a snapshot of its own
        f = prog["files"][0]
        n += 1
        sid = f"ex{n}"
        exflags = erng.choice(["create", "create", "create,fix", ""])
        after = "from inline_snapshot import snapshot\n\ndef test_a():\n    assert 5 == snapshot(5)\n"
        val = ["dict", [[["str", "test_something.py"], ["str", after]]]] if "create" in exflags else ["dict", []]
        arg = erng.choice([None, None, V.expr(val), '{"test_something.py": "something else"}'])
        f["sites"][sid] = {"op": "eq", "place": "direct", "arg": arg, "prev": None}
        f["tests"].append({"name": f"test_example{n}", "events": [{"t": "cmp", "eid": f"exe{n}", "site": sid, "vals": [val], "style": "assert", "via": "example", "exflags": exflags}]})
    nrng = sub(seed, "nested")
    nested = False
    if nrng.random() < 0.2:
        # a test that executes snapshots and then runs a nested in-process pytest session (pytester), in which inline-snapshot
        # is active or disabled (flag / CI variable): the outer test's verdict must not depend on it
        f = prog["files"][0]
        cands = [t for t in f["tests"] if not t.get("param") and any(e.get("t") == "cmp" for e in t["events"])]
        if cands:
            t = nrng.choice(cands)
            t["args"] = "pytester, monkeypatch"
            how = nrng.choice(["disable", "ci", "active", "disable", "bogus"])
            lines = ["pytester.makepyfile(test_inner='def test_i():\\n    assert 1 == 1\\n')"]
            if how == "ci":
                lines.append("monkeypatch.setenv('CI', 'true')")
            # ("bogus": the inner session stops with a usage error in pytest_configure - pytest_sessionfinish is never called for it)
            inner_flags = "'--inline-snapshot=disable', " if how == "disable" else "'--inline-snapshot=bogus', " if how == "bogus" else ""
            lines.append(f"pytester.runpytest_inprocess('-p', 'inline_snapshot.pytest_plugin', '-p', 'no:cacheprovider', {inner_flags}'-q')")
            for ln in lines:
                t["events"].append({"t": "stmt", "text": ln})
            nested = True
    thr = sub(seed, "thread")
    if thr.random() < 0.25:
        # some comparisons are executed by a worker thread that the test starts and joins: still a snapshot executed inside that test
        for f in prog["files"]:
            for t in f["tests"]:
                for e in t["events"]:
                    if e.get("t") == "cmp" and not e.get("via") and not e.get("access_only") and thr.random() < 0.5:
                        e["via"] = "thread"
    arng = sub(seed, "async")
    use_async = False
    if arng.random() < 0.2:
        # some tests are coroutines which pytest-asyncio runs as tasks: their snapshots are still executed inside that test
        for f in prog["files"]:
            for t in f["tests"]:
                if not t.get("param") and not t.get("args") and arng.random() < 0.5:
                    t["async"] = True
                    use_async = True
    lrng = sub(seed, "leave")
    for f in prog["files"]:
        for t in f["tests"]:
            if not t.get("param") and not t.get("args") and any(e.get("t") == "cmp" for e in t["events"]) and lrng.random() < 0.12:
                # the test leaves its body through an imperative skip / xfail AFTER its comparisons: what the comparisons counted still decides
                how = lrng.choice(["skip", "xfail"])
                t["events"].append({"t": "stmt", "text": f"import pytest; pytest.{how}('the rest of this test does not apply here')"})
                t["leaves"] = how
    xrng = sub(seed, "xfail")
    for f in prog["files"]:
        for t in f["tests"]:
            r = xrng.random()
            if r < 0.12:
                t["xfail"] = True
            elif r < 0.2:
                t["xfail"] = xrng.choice(["false", "false-kw", "false-str"])  # xfail(False) / xfail(condition=False) / xfail('<false expression>'): not an expected failure, judged like every other test
        orng = sub(seed, "order")
        orng.shuffle(f["tests"])
    return {"program": prog, "config": draw_config(sub(seed, "config")), "cold": sub(seed, "cold").random() < 0.04 and not nested and not use_async, "pytester": nested, "asyncio": use_async}


def virtual_tests(prog):
    """[(filename, test dict)] with parametrised tests expanded into one virtual test per parameter (pytest's item ids)"""
    out = []
    for f in sorted(prog["files"], key=lambda f: f["name"]):
        for t in f["tests"]:
            if t.get("param"):
                for pv in t["param"]:
                    out.append((f["name"], dict(t, name=f"{t['name']}[{pv}]", events=[{"t": "bind", "var": "_p", "val": ["int", pv]}] + t["events"])))
            else:
                out.append((f["name"], t))
    return out


def execute(case, ctx):
    prog, cfg = case["program"], case["config"]
    out = {"violations": [], "discards": {}, "abstract": []}

    def viol(clause, sig, detail):
        if not any(v["clause"] == clause and v["sig"] == sig for v in out["violations"]):
            out["violations"].append({"clause": clause, "sig": sig, "detail": detail})

    files, orders = P.render(prog, drivers.simlib_text())
    try:
        before = sim.site_map(files, orders)
    except SyntaxError:
        out["discards"]["generated-file-unparsable"] = 1
        return out
    sidx = W.site_index(prog)
    ops = {sid: s["op"] for sid, (f, s) in sidx.items()}
    src = {}
    for (fn, sid), call in before.items():
        try:
            src[sid] = MISSING if call.arg_text is None else P.eval_arg(call.arg_text)
        except Exception:
            out["discards"]["previous-argument-does-not-evaluate"] = 1
            return out
    for sid in ops:
        src.setdefault(sid, MISSING)
    approved = effective(cfg["flags"])
    # xfail tests run with an inactive private state: they do not touch the session's sites
    vtests = virtual_tests(prog)
    events = [(fn, t["name"], e) for fn, t in vtests for e in t["events"]]
    xfail = {(f["name"], t["name"]) for f in prog["files"] for t in f["tests"] if t.get("xfail") is True}
    m = SessionModel(src, ops, approved).run([ev for ev in events if (ev[0], ev[1]) not in xfail], V.pyval)
    spec = {"flags": cfg["flags"], "answers": cfg["answers"], "pytester": bool(case.get("pytester")), "asyncio": bool(case.get("asyncio"))}
    if case.get("asyncio"):
        ctx.count("probe_async_tests_run_as_tasks")
    if case.get("pytester"):
        ctx.count("probe_nested_inprocess_session")
    new, res = sim.run_session(ctx, "plugin", files, spec)
    if res.get("status") != "ok":
        out["discards"]["session-process-died"] = 1
        return out
    if res.get("state_depth") not in (0, None):
        # a nested in-process session (or the session itself) left a snapshot state pushed: every later fixture of the embedding session reads the
        # counters of the wrong state - wrong and missing snapshots of the tests that follow are no longer seen
        viol("state-restored", "snapshot-state-stack-not-restored-after-session",
             f"{res.get('state_depth')} snapshot state(s) still pushed after the session (flags={cfg['flags']}, nested in-process session: {bool(case.get('pytester'))})\n{res.get('out', '')[-1200:]}")
    if res.get("rc") in (3, 4) or (res.get("rc") is None):
        # internal error / usage error: session-finish trouble is C18's statement; the exit status is non-zero anyway
        out["discards"]["session-internal-error(C18)"] = 1
        return out
    rec = sim.rec_by_eid(res.get("rec", []))
    any_bad = False
    judged = 0
    all_clean = True
    byname = {f["name"]: f for f in prog["files"]}
    for fname, t in vtests:
        f = byname[fname]
        if True:
            tk = (f["name"], t["name"])
            nodeid = f"{f['name']}::{t['name']}"
            if tk in xfail:
                all_clean = False
                continue
            rep = res["tests"].get(nodeid)
            if rep is None:
                out["discards"]["test-not-reported"] = out["discards"].get("test-not-reported", 0) + 1
                all_clean = False
                continue
            cmp_events = [e for e in t["events"] if e.get("t") == "cmp"]
            raised_in_cmp = any(isinstance(a, str) for e in cmp_events for a in (rec.get(e["eid"]) or [])) or any(
                isinstance(a, str) for e in cmp_events for a in (m.answers.get(e["eid"]) or []))
            exempt_site = any(m.sites[e["site"]].exempt() for e in cmp_events)
            if raised_in_cmp or exempt_site:
                out["discards"]["comparison-raised-or-site-exempt"] = out["discards"].get("comparison-raised-or-site-exempt", 0) + 1
                all_clean = False
                continue
            bad = m.test_bad.get(tk, False)
            failed = "failed" in (rep.get("setup"), rep.get("call"), rep.get("teardown"))
            judged += 1
            ctx.count("tests_judged")
            shared = max([sum(1 for t2 in f["tests"] for e2 in t2["events"] if e2.get("site") == e["site"]) for e in cmp_events] or [0])
            badops = sorted({ops[e["site"]] for e in cmp_events})
            out["abstract"].append(f"{'+'.join(badops)}|{cfg['flags']}|bad={bad}|shared={min(shared, 3)}|{'F' if failed else 'P'}")
            if bad:
                any_bad = True
                ctx.count("probe_bad_test")
                if shared > 1:
                    ctx.count("probe_bad_site_shared_by_tests")
                if not failed:
                    # which operation is the culprit?
                    culprit = []
                    for e in cmp_events:
                        s = m.sites[e["site"]]
                        culprit.append(ops[e["site"]] + ("/missing" if src[e["site"]] is MISSING else "/wrong"))
                    viol("bad-test-is-green", f"green:{'+'.join(sorted(set(culprit)))}:flags={','.join(sorted(approved)) or 'none'}",
                         f"{nodeid} executed a missing or failing snapshot but is reported {rep} (flags={cfg['flags']}, answers={cfg['answers']})\n"
                         f"--- {f['name']}\n{files[f['name']][:1500]}")
            else:
                other_fail = m.test_raised.get(tk, False) or m.test_aborted.get(tk, False)
                if other_fail:
                    all_clean = False
                elif failed:
                    viol("good-test-failed", f"failed-by-inline-snapshot:flags={','.join(sorted(approved)) or 'none'}",
                         f"{nodeid}: every executed snapshot holds, nothing else fails, but the report is {rep} (flags={cfg['flags']})\n"
                         f"--- {f['name']}\n{files[f['name']][:1500]}")
    ctx.count("clauses_checked")
    if any_bad and res.get("rc") == 0:
        viol("exit-status", f"exit-0-with-bad-test:flags={','.join(sorted(approved)) or 'none'}", f"rc=0 although a test executed a missing / failing snapshot\n{res.get('out', '')[-1500:]}")
    if judged and all_clean and not any_bad and res.get("rc") != 0:
        viol("exit-status", "nonzero-exit-although-all-snapshots-hold", f"rc={res.get('rc')}\n{res.get('out', '')[-1500:]}")
    if case.get("cold"):
        cres = sim.run_session(ctx, "cold", files, {"flags": cfg["flags"] if "review" not in (cfg["flags"] or "") else None})[1] if "review" not in (cfg["flags"] or "") else None
        if cres is not None and cres.get("status") == "ok":
            ctx.count("probe_cold_subprocess_agrees")
            if (cres["rc"] == 0) != (res["rc"] == 0):
                viol("driver-faithfulness", "cold-subprocess-exit-status-differs", f"forked rc={res['rc']} cold rc={cres['rc']}\n{cres['out'][-1200:]}")
    if judged:
        out["sample"] = {"config": cfg, "rc": res.get("rc"), "tests": {k: [v.get("setup"), v.get("call"), v.get("teardown")] for k, v in res["tests"].items()},
                         "file": files[prog["files"][0]["name"]][:700]}
    return out


def shrink(case):
    for p in W.shrink_program(case["program"]):
        yield dict(case, program=p)
    for f in case["program"]["files"]:
        for t in f["tests"]:
            if t.get("xfail"):
                import json

                c = json.loads(json.dumps(case))
                for f2 in c["program"]["files"]:
                    for t2 in f2["tests"]:
                        if t2["name"] == t["name"]:
                            t2.pop("xfail")
                yield c
    if case.get("cold"):
        yield dict(case, cold=False)
