"""C02 - approving create and fix repairs every reached snapshot in a single run.

History: session(create, fix approved) -> read-back with inline-snapshot disabled.  The position of
the first mismatching snapshot among the events of a test (before / after other sites, before a
raising statement) is a scheduler choice; assert-style events make 'the comparison is made to
succeed so the body runs on' the mechanism under test.
"""
from ..gen import values as V
from ..gen import workload as W
from ..prng import sub
from . import c01

ID = "C02"
PROBES = ['sites_created', 'readbacks']  # reach probes: counters that must be non-zero in a run (a zero is printed and recorded)
LEVEL = "exploration"
BUDGET = {"quick": 1500, "thorough": 60000}
WALL = {"quick": 240, "thorough": 3000}
TECHNIQUE = "deterministic simulation: seeded two-session histories (create+fix session -> disabled read-back), scheduler-chosen event order, simulated formatter party"
LEVEL_TEXT = ("seeded search over generated projects whose sites carry previous content of every kind (other type, longer, shorter, "
              "reordered, nested, constructor calls, hand-written expressions); the oracle is the read-back session over the durable "
              "directory: every snapshot the first session reached must hold; sampling, not proof")
LEVEL_NOTE = c01.LEVEL_NOTE
RULE = ("one run = project with 1-6 sites with previous content (absent / same / other / edited / slack / wrong / subset / superset, "
        "hand-styled or tool-styled), several sites per test, loops, sub-snapshots, optional raising statements, executed as "
        "session(create,fix) then read-back; reached = recorded by the first session; distinct = (operation, placement, previous-shape, "
        "new-shape, formatter, driver) tuples; non-trivial = at least one reached site read back")
RULE += " Dimensions added while testing against seeded changes: twin files, overlap edits, multi-file plugin sessions; files that import HasRepr / external only below module level plus a value that needs the name."
ASSUMPTIONS = c01.ASSUMPTIONS + ["sites whose previous content contains Is(...) are exempt from the read-back clause (user-controlled parts are never repaired)"]
REAL_VS_STUB = c01.REAL_VS_STUB

PREV = ["none", "same", "other", "other", "edit", "edit", "edit", "slack", "wrong", "subset", "superset", "disjoint"]


def generate(seed, tier="quick"):
    rng = sub(seed, "program")
    driver = "plugin" if sub(seed, "driver").random() < 0.10 else "inline"
    prof = V.draw_profile(sub(seed, "profile"))
    prof.special = [s for s in prof.special if s != "norepr"]
    o = {"prev": PREV, "n_sites": (1, 6), "n_tests": (1, 3), "styles": ["assert", "assert", "rec"], "raise_events": 0.15, "hand": 0.4}
    multi = driver == "plugin" and sub(seed, "multifile").random() < 0.6
    if multi:
        o["n_files"] = (2, 3)
    prog = W.gen_program(rng, prof, o)
    if multi:
        # several files in one session: every file has something to create, the file that runs last has nothing to fix
        # (the approval step at session end walks over the files once per category)
        fs = sorted(prog["files"], key=lambda f: f["name"])
        for f in fs:
            if not any(s["arg"] is None for s in f["sites"].values()):
                s = next(iter(f["sites"].values()))
                s["arg"], s["prev"] = None, None
        for s in fs[-1]["sites"].values():
            s["arg"], s["prev"] = None, None
    drng = sub(seed, "dictedit")
    if drng.random() < 0.35:
        # a dict / constructor call where one entry is renamed (delete + insert at the same place) and another entry is
        # inserted right behind it, bare or nested in a list: adjacent insert positions around a deleted element
        f = prog["files"][0]
        keys = drng.sample(["a", "b", "c", "d", "e"], drng.randint(3, 4))
        old_items = [[["str", k], ["int", i]] for i, k in enumerate(keys)]
        i = drng.randrange(len(old_items) - 1)
        new_items = [list(x) for x in old_items]
        new_items[i] = [["str", "x" + keys[i]], ["int", 10]]
        new_items.insert(i + 1, [["str", "y"], ["int", 11]])
        if drng.random() < 0.3:
            new_items.insert(i + 3 if i + 3 <= len(new_items) else len(new_items), [["str", "z"], ["int", 12]])
        oldv, newv = ["dict", old_items], ["dict", new_items]
        if drng.random() < 0.4:
            oldv, newv = ["list", [["int", 0], oldv]], ["list", [["int", 0], newv]]
        n = len(f["sites"])
        f["sites"][f"d{n}"] = {"op": "eq", "place": drng.choice(["direct", "func"]), "arg": V.expr(oldv), "prev": oldv}
        drng.choice(f["tests"])["events"].append({"t": "cmp", "eid": f"ed{n}", "site": f"d{n}", "vals": [newv], "style": drng.choice(["assert", "rec"])})
    crng = sub(seed, "classchange")
    if crng.random() < 0.2:
        # previous content is a constructor call of ANOTHER class served by the same kind of adapter (bare or nested in a list)
        f = prog["files"][0]
        pairs = [("DC", "a", "DCD", "x"), ("DCD", "x", "DC", "a"), ("DC", "a", "Outer.IDC", "v"), ("AT", "p", "DC", "a"), ("PM", "m", "DC", "a"), ("NT", "f", "DC", "a")]
        oc, of, nc, nf = crng.choice(pairs)
        oldv = ["dc", oc, [[of, ["int", crng.randint(0, 9)]]] + ([["g", ["int", 1]]] if oc == "NT" else [])]
        newv = ["dc", nc, [[nf, ["int", crng.randint(0, 9)]]]]
        if crng.random() < 0.4:
            oldv, newv = ["list", [oldv, ["int", 1]]], ["list", [newv, ["int", 1]]]
        n = len(f["sites"])
        f["sites"][f"k{n}"] = {"op": "eq", "place": "direct", "arg": V.expr(oldv), "prev": oldv}
        crng.choice(f["tests"])["events"].append({"t": "cmp", "eid": f"ek{n}", "site": f"k{n}", "vals": [newv], "style": crng.choice(["assert", "rec"])})
    mrng = sub(seed, "mutation")
    if mrng.random() < 0.15:
        W.add_mutation_test(mrng, prog["files"][0], style=mrng.choice(["rec", "assert"]), prev=True)
    urng = sub(seed, "unmanaged")
    for f in prog["files"]:
        for sid, s in f["sites"].items():
            if s["arg"] is not None and s["prev"] is not None and s["prev"][0] in ("list", "tuple") and s["prev"][1] and urng.random() < 0.12:
                # the user takes control of one element with Is(...)
                items = [V.expr(x) for x in s["prev"][1]]
                k = urng.randrange(len(items))
                items[k] = f"Is({items[k]})"
                o, c = ("[", "]") if s["prev"][0] == "list" else ("(", ",)" if len(items) == 1 else ")")
                s["arg"] = o + ", ".join(items) + c
                s["unmanaged"] = True
    nrng_ = sub(seed, "nested-imports")
    if nrng_.random() < 0.15:
        # ... and a value in that file needs one of these names (an object whose repr is not code, created or inserted into an existing list)
        W.add_nested_tool_imports(prog["files"][0], nrng_)
        f_ = prog["files"][0]
        f_["sites"]["ni1"] = {"op": "eq", "place": "direct", "arg": nrng_.choice([None, "[1]"]) if "c02" == "c02" else None, "prev": None}
        nrng_.choice(f_["tests"])["events"].append({"t": "cmp", "eid": "eni1", "site": "ni1", "vals": [["list", [["int", 1], ["norepr", nrng_.randint(1, 5)]]]], "style": nrng_.choice(["assert", "rec"])})
    wrng = sub(seed, "twin")
    if wrng.random() < 0.08 and len(prog["files"]) == 1:
        W.add_twin_file(prog, wrng, vary=wrng.random() < 0.6)
    W.sprinkle_uni(prog, sub(seed, "uni"), 0.1)
    return {"program": prog, "driver": driver, "fmt": c01.draw_fmt(sub(seed, "fmt")), "flags": "create,fix", "allow_raises": True}


execute = c01.execute
shrink = c01.shrink
