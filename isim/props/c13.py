"""C13 - external storage stays consistent across any history of runs.

Multi-session histories over the durable storage directory (real plugin sessions only: run_inline
has no persist / prune / trim): edits of the outsourced data, added / removed tests, references
removed by hand, storage files deleted by hand, sessions with any flags / review answers / -k
selection (so some files do not take part), hash-length and storage-dir settings.  Fault-free;
faults are C15.  After every step a model of the storage is compared with the directory listing
(invariants S1-S6, see DESIGN 4/C13).
"""
import copy
import hashlib
import re

from .. import drivers, sim
from ..gen import program as P
from ..gen import values as V
from ..gen import workload as W
from ..prng import sub

ID = "C13"
PROBES = ['probe_external_persisted', 'probe_persisted_file_removed', 'probe_missing_or_ambiguous_prefix', 'lookups_probed']  # reach probes: counters that must be non-zero in a run (a zero is printed and recorded)
LEVEL = "exploration"
BUDGET = {"quick": 260, "thorough": 7000}
WALL = {"quick": 300, "thorough": 3400}
TECHNIQUE = "deterministic simulation: seeded multi-session histories over a durable storage directory, step invariants against a storage model, lookups probed through the real code"
LEVEL_TEXT = ("seeded search over histories of 2-8 steps (sessions with flags / review answers / -k selection, data edits, added and removed tests, "
              "hand-removed references, hand-deleted storage files, hash-length and storage-dir changes); after every step the storage listing, the "
              "file contents and the references in the test files are checked against a model map name -> (bytes, persisted?); sampling, not proof")
LEVEL_NOTE = "trusted: sha256, the model map, ast-based reference extraction; hash-length 64 (references without '*') is part of the configuration space"
RULE = ("one run = history over a project with 1-3 test files whose tests compare outsource(data, suffix) (str / bytes, equal bytes under several "
        "suffixes, shared by several tests, bare and inside lists / dicts) with == snapshots; distinct = abstract histories (step kinds, flags, "
        "participation pattern, hash-length); non-trivial = at least one external persisted and one later step")
RULE += " Dimensions added while testing against seeded changes: data outsourced at import time by a module-level constant; suffixes with digits, capitals and a bare dot; sessions started outside the project directory; history step: the external import is moved below a statement, then a trim session; inactive sessions (disable, CI variables) in the histories."
ASSUMPTIONS = ["real plugin sessions only", "S5 is probed through external(name)._load_value() in a forked process on a copy of the tree"]
REAL_VS_STUB = {
    "real": ["pytest", "inline_snapshot plugin + library from /repo/src (DiscStorage, outsource, persist, prune, trim)", "tmpfs storage directory"],
    "stub": ["review answers", "the user (edits, flags, -k selection)"],
}
DATA = ["alpha", "beta", "gamma", "delta", "x" * 40, "line1\nline2\n", "ünï", ""]
SUFFIX = [None, None, ".txt", ".bin", ".log", ".json", ".mp4", ".JSON", ".h5", ".7z", "."]
CATS = ["create", "fix", "trim", "update"]


def ext_value(rng):
    d = rng.choice(DATA)
    if rng.random() < 0.4:
        return ["ext", ["bytes", d.encode("utf-8").decode("latin-1")], rng.choice(SUFFIX)]
    return ["ext", ["str", d], rng.choice(SUFFIX)]


def ext_key(v):
    """(sha256, suffix) of an ext value"""
    d = v[1][1]
    data = d.encode("latin-1") if v[1][0] == "bytes" else d.encode("utf-8")
    sfx = v[2] if v[2] is not None else (".bin" if v[1][0] == "bytes" else ".txt")
    return hashlib.sha256(data).hexdigest(), sfx, data


def wrap(rng, v):
    r = rng.random()
    if r < 0.6:
        return v
    if r < 0.8:
        return ["list", [["int", rng.randint(0, 3)], v]]
    if r < 0.9:
        return ["dict", [[["str", "k"], v], [["str", "n"], ["int", 1]]]]
    return ["list", [v, ext_value(rng)]]


def generate(seed, tier="quick"):
    rng = sub(seed, "program")
    files = []
    sid_n = eid_n = 0
    for fi in range(rng.randint(1, 3)):
        sites, tests = {}, []
        for ti in range(rng.randint(1, 3)):
            events = []
            for _ in range(rng.randint(1, 2)):
                sid_n += 1
                eid_n += 1
                sites[f"s{sid_n}"] = {"op": "eq", "place": "direct", "arg": None, "prev": None}
                events.append({"t": "cmp", "eid": f"e{eid_n}", "site": f"s{sid_n}", "vals": [wrap(rng, ext_value(rng))], "style": rng.choice(["assert", "rec"])})
            tests.append({"name": f"test_t{fi}{ti}", "events": events})
        files.append({"name": f"test_{'abc'[fi]}.py", "header": {"imports": "star"}, "sites": sites, "tests": tests})
    mrng = sub(seed, "module-outsource")
    if mrng.random() < 0.3:
        # data outsourced while the module is imported (a module-level constant): collection happens after the session start, so the
        # "-new" file written at import time belongs to this session like the ones written by running tests
        f = mrng.choice(files)
        v = ext_value(mrng)
        sid_n += 1
        eid_n += 1
        f["header"]["pre"] = [f"MD = {V.expr(v)}"]
        f["module_ext"] = [v]
        f["sites"][f"s{sid_n}"] = {"op": "eq", "place": "direct", "arg": None, "prev": None}
        f["tests"].append({"name": f"test_md{sid_n}", "events": [{"t": "cmp", "eid": f"e{eid_n}", "site": f"s{sid_n}", "var": "MD", "vals": [v], "style": mrng.choice(["assert", "rec"])}]})
    prog = {"files": files, "pyproject": None}
    srng = sub(seed, "steps")
    steps = [{"k": "session", "flags": srng.choice(["create", "create,fix", "create", "create,fix,trim,update"])}]
    for _ in range(srng.randint(1, 7)):
        r = srng.random()
        if r < 0.5:
            fl = srng.choice(["create", "fix", "create,fix", "trim", "create,fix,trim", "create,fix,trim,update", None, "report", "review", "review", "short-report", "update", "disable", "ci"])
            st = {"k": "session", "flags": fl}
            if fl == "ci":
                # an inactive session: a CI variable is set (flags, if any, are ignored); like with disable, outsource() still writes and the start still prunes
                st = {"k": "session", "flags": srng.choice([None, "create,fix", "trim"]), "env": {srng.choice(["CI", "GITHUB_ACTIONS", "JENKINS_URL"]): "true"}}
            if fl == "review":
                st["answers"] = {c: srng.random() < 0.5 for c in CATS}
            if srng.random() < 0.25:
                st["select"] = srng.randint(0, 99)
            steps.append(st)
            if sub(seed, f"cwd{len(steps)}").random() < 0.2:
                st[sub(seed, f"cwdk{len(steps)}").choice(["from_parent", "from_sibling"])] = True  # started outside the project, which is named on the command line
        elif r < 0.68:
            steps.append({"k": "edit_data", "seed": srng.randint(0, 10**9)})
        elif r < 0.76:
            steps.append({"k": "remove_test", "seed": srng.randint(0, 10**9)})
        elif r < 0.84:
            steps.append({"k": "remove_ref", "seed": srng.randint(0, 10**9)})
        elif r < 0.90:
            steps.append({"k": "delete_storage_file", "seed": srng.randint(0, 10**9)})
        elif r < 0.93:
            # the user edits only the import section: a statement now stands between the other imports and `from inline_snapshot import external`;
            # the session that follows approves trim
            steps.append({"k": "move_import"})
            steps.append({"k": "session", "flags": srng.choice(["trim", "create,fix,trim", "fix,trim", "trim,update"])})
        elif r < 0.97:
            steps.append({"k": "config", "hash_length": srng.choice([1, 2, 8, 12, 64])})
        else:
            steps.append({"k": "add_test", "seed": srng.randint(0, 10**9)})
    crng = sub(seed, "config")
    cfg = {"hash_length": crng.choice([None, None, 1, 2, 8, 64]), "storage_dir": crng.choice([None, None, "snaps", "$W/abs_store", "deep/er/store"])}
    return {"program": prog, "steps": steps, "config": cfg}


def storage_rel(cfg):
    sd = cfg.get("storage_dir")
    if sd is None:
        return ".inline-snapshot/external"
    return sd.replace("$W/", "") + "/external"


def pyproject(cfg):
    tool = {}
    if cfg.get("hash_length") is not None:
        tool["hash-length"] = cfg["hash_length"]
    if cfg.get("storage_dir") is not None:
        tool["storage-dir"] = cfg["storage_dir"]
    return sim.pyproject_for(tool=tool)


REF = re.compile(r"""external\(\s*["']([0-9a-fA-F]*)(\*?)(\.[a-zA-Z0-9]*)["']\s*\)""")


def references(text):
    """[(prefix, star, suffix, literal name)] of external(...) calls in a test file"""
    return [(m.group(1), m.group(2), m.group(3), m.group(1) + m.group(2) + m.group(3)) for m in REF.finditer(text)]


def ref_matches(ref, name):
    """does reference (prefix, star, suffix) glob-match the stored file name?"""
    prefix, star, suffix, _ = ref
    # loading always globs "<hash>*<suffix>" (external._path), with or without a star in the written name
    return name.startswith(prefix) and name.endswith(suffix) and len(name) >= len(prefix) + len(suffix)


def listing(tree, srel):
    out = {}
    for k, v in tree.items():
        if k.startswith(srel + "/"):
            n = k[len(srel) + 1:]
            if n != ".gitignore" and "/" not in n:
                out[n] = v
    return out


def execute(case, ctx):
    ctx.persistent = True  # plugin sessions of this history share one directory incl. __pycache__ (logical clock for mtimes, see sim.sync_tree)
    import random

    prog = copy.deepcopy(case["program"])
    cfg = dict(case["config"])
    out = {"violations": [], "discards": {}, "abstract": []}

    def viol(clause, sig, detail):
        if not any(v["clause"] == clause and v["sig"] == sig for v in out["violations"]):
            out["violations"].append({"clause": clause, "sig": sig, "detail": detail})

    files, orders = P.render(prog, drivers.simlib_text())
    files["pyproject.toml"] = pyproject(cfg)
    files = sim.to_bytes(files)
    sidx = W.site_index(prog)
    ever = {}  # (sha, suffix) -> bytes ever outsourced
    hist = []
    persisted_once = False

    def rerender():
        nonlocal orders, sidx
        smap = sim.site_map(sim.to_text({k: v for k, v in files.items() if k.startswith("test_")}), orders)
        for (fn, sid), call in smap.items():
            sidx[sid][1]["arg"] = call.region_text.rstrip(", \n\t") or None if call.arg_text is not None else None
        for f in prog["files"]:
            f["header"]["imports"] = "star"
        nf, orders = P.render(prog, drivers.simlib_text())
        sidx = W.site_index(prog)
        for k in [k for k in files if k.startswith("test_")]:
            if k not in nf:
                del files[k]
        for k, v in nf.items():
            if k.startswith("test_"):
                text = v
                # keep the import the tool added for references
                if "external(" in text and "from inline_snapshot import external" not in text:
                    text = text.replace("from simlib import *\n", "from simlib import *\nfrom inline_snapshot import external\n", 1)
                files[k] = text.encode("utf-8")

    for si, step in enumerate(case["steps"]):
        srel = storage_rel(cfg)
        pre = dict(files)
        pre_list = listing(pre, srel)
        k = step["k"]
        hist.append(k if k != "session" else f"session[{step.get('flags')}{'/k' if step.get('select') is not None else ''}]")
        rng = random.Random(step.get("seed", 0))
        try:
            if k == "edit_data":
                evs = [e for f in prog["files"] for t in f["tests"] for e in t["events"] if e.get("t") == "cmp" and "var" not in e]
                if evs:
                    for e in rng.sample(evs, min(len(evs), rng.randint(1, 2))):
                        e["vals"] = [wrap(rng, ext_value(rng))]
                    rerender()
                continue
            if k == "remove_test":
                f = rng.choice(prog["files"])
                if len(f["tests"]) > 1:
                    t = f["tests"].pop(rng.randrange(len(f["tests"])))
                    W._prune_sites(f)
                    rerender()
                continue
            if k == "add_test":
                f = rng.choice(prog["files"])
                n = 1 + max([int(s[1:]) for ff in prog["files"] for s in ff["sites"]] + [0])
                f["sites"][f"s{n}"] = {"op": "eq", "place": "direct", "arg": None, "prev": None}
                f["tests"].append({"name": f"test_added{n}", "events": [{"t": "cmp", "eid": f"x{n}", "site": f"s{n}", "vals": [wrap(rng, ext_value(rng))], "style": "rec"}]})
                rerender()
                continue
            if k == "remove_ref":
                cands = [(fn, sid) for (fn, sid), c in sim.site_map(sim.to_text({k2: v for k2, v in files.items() if k2.startswith("test_")}), orders).items() if c.arg_text]
                if cands:
                    fn, sid = rng.choice(cands)
                    rerender()
                    sidx[sid][1]["arg"] = None
                    nf, orders = P.render(prog, drivers.simlib_text())
                    for kk, v in nf.items():
                        if kk.startswith("test_"):
                            text = v
                            if "external(" in text and "from inline_snapshot import external" not in text:
                                text = text.replace("from simlib import *\n", "from simlib import *\nfrom inline_snapshot import external\n", 1)
                            files[kk] = text.encode("utf-8")
                continue
            if k == "delete_storage_file":
                names = sorted(n for n in pre_list if "-new" not in n)
                if names:
                    del files[srel + "/" + rng.choice(names)]
                continue
            if k == "move_import":
                for kk in [kk for kk in files if kk.startswith("test_")]:
                    text = files[kk].decode("utf-8")
                    line = "from inline_snapshot import external\n"
                    if line in text and "from simlib import *\n" in text:
                        text = text.replace(line, "", 1).replace("from simlib import *\n", "from simlib import *\nIMPORT_GUARD = len('a statement between the imports')\n" + line, 1)
                        files[kk] = text.encode("utf-8")
                        ctx.count("probe_external_import_moved_below_a_statement")
                continue
            if k == "config":
                cfg["hash_length"] = step["hash_length"]
                files["pyproject.toml"] = pyproject(cfg).encode()
                continue
        except SyntaxError:
            out["discards"]["test-file-unparsable-at-hand-edit"] = 1
            return out
        # ------------------------------------------------------------------ a session
        argv = []
        selected = None
        if step.get("select") is not None:
            names = [t["name"] for f in prog["files"] for t in f["tests"]]
            selected = names[step["select"] % len(names)]
            argv = ["-k", selected]
        if step.get("from_parent") or step.get("from_sibling"):
            ctx.count("probe_session_started_outside_the_project_directory")
        if step.get("env") or step.get("flags") == "disable":
            ctx.count("probe_inactive_session_in_the_history")
        new, res = sim.run_session(ctx, "plugin", files, {"flags": step.get("flags"), "answers": step.get("answers"), "argv": argv, "env": step.get("env"), "from_parent": bool(step.get("from_parent")),
                                                        "from_sibling": bool(step.get("from_sibling"))}, timeout=90)
        if not sim.session_completed("plugin", res):
            out["discards"]["session-did-not-complete(C18)"] = 1
            return out
        rec = sim.rec_by_eid(res.get("rec", []))
        post_list = listing(new, srel)
        texts = {kk: v.decode("utf-8") for kk, v in new.items() if kk.startswith("test_")}
        # which events ran, which files took part
        ran_this = {}
        took_part = set()
        asserts_ran = {}
        for f in prog["files"]:
            for v in f.get("module_ext", []):
                # outsourced when the module was imported (collection), whichever tests were selected
                h, sfx, data = ext_key(v)
                ran_this[(h, sfx)] = data
                ever[(h, sfx)] = data
                ctx.count("probe_data_outsourced_at_import_time")
        for f in prog["files"]:
            for t in f["tests"]:
                if selected is not None and selected not in t["name"]:
                    continue
                rep = res["tests"].get(f"{f['name']}::{t['name']}")
                if rep is None:
                    continue
                for e in t["events"]:
                    if e.get("t") != "cmp":
                        continue
                    # the outsource() call is evaluated before the comparison: it ran iff the event was reached
                    reached = bool(rec.get(e["eid"])) or e.get("style") == "assert"
                    if reached:
                        took_part.add(f["name"])
                        for v in e["vals"]:
                            for n in V.walk(v):
                                if n[0] == "ext":
                                    h, sfx, data = ext_key(n)
                                    ran_this[(h, sfx)] = data
                                    ever[(h, sfx)] = data
        ctx.count("clauses_checked")
        flags = set((step.get("flags") or "report").split(","))
        trim_ok = ("trim" in flags or ("review" in flags and (step.get("answers") or {}).get("trim"))) and not step.get("env")  # (a CI session approves nothing)
        all_refs = [(fn, r) for fn, t in texts.items() for r in references(t)]
        # ---- S1: name = sha256(content) [-new] suffix, content = what was outsourced
        for n, content in post_list.items():
            m = re.fullmatch(r"([0-9a-f]{64})(-new)?(\.[a-zA-Z0-9]*)", n)
            if not m:
                viol("S1", "storage-file-with-foreign-name", f"step {si}: {n}")
                continue
            if hashlib.sha256(content).hexdigest() != m.group(1):
                viol("S1", "stored-bytes-do-not-match-their-sha256-name", f"step {si} {hist}: {n}")
            elif (m.group(1), m.group(3)) not in ever:
                viol("S1", "stored-file-was-never-outsourced-under-that-suffix", f"step {si} {hist}: {n}")
        # ---- S2: a file becomes persisted only if a reference to it is in a test file afterwards
        for n in post_list:
            if "-new" in n:
                continue
            was = n in pre_list
            if not was:
                persisted_once = True
                ctx.count("probe_external_persisted")
                if not any(ref_matches(r, n) for fn, r in all_refs):
                    viol("S2", "persisted-without-reference", f"step {si} {hist}: {n} became persisted but no test file references it\n" + "\n".join(texts.values())[:800])
        # ---- S3: every -new file was outsourced in this session
        for n in post_list:
            if "-new" in n:
                m = re.fullmatch(r"([0-9a-f]{64})-new(\.[a-zA-Z0-9]*)", n)
                if m and (m.group(1), m.group(2)) not in ran_this:
                    viol("S3", "unreferenced-new-file-survived-a-session-start", f"step {si} {hist}: {n} was not outsourced in this session")
        # ---- S4: a persisted file disappears only by an approved trim and only if no participating file references it
        for n in pre_list:
            if "-new" in n or n in post_list:
                continue
            ctx.count("probe_persisted_file_removed")
            if not trim_ok:
                viol("S4", "persisted-file-removed-without-approved-trim", f"step {si} {hist} flags={step.get('flags')} answers={step.get('answers')}: {n} disappeared")
            else:
                refd = [fn for fn, r in all_refs if fn in took_part and ref_matches(r, n)]
                if refd:
                    viol("S4", "referenced-persisted-file-trimmed", f"step {si} {hist}: {n} removed although {refd} took part and reference it")
        # ---- S6: a reference written in this session resolves to the data that was outsourced at that site
        try:
            bmap = sim.site_map(sim.to_text({kk: v for kk, v in pre.items() if kk.startswith("test_")}), orders)
            amap = sim.site_map(texts, orders)
        except SyntaxError as ex:
            viol("parse", "unparsable-after-session", f"step {si}: {ex}")
            return out
        probe_names = {}
        for (fn, sid), call in amap.items():
            if call.region_text == bmap[(fn, sid)].region_text:
                continue
            evs = [e for f in prog["files"] for t in f["tests"] for e in t["events"] if e.get("t") == "cmp" and e["site"] == sid]
            exts = [n for e in evs for v in e["vals"] for n in V.walk(v) if n[0] == "ext"]
            refs_here = references(call.region_text)
            for n, r in zip(exts, refs_here):
                h, sfx, data = ext_key(n)
                probe_names[r[3]] = (sid, h, sfx, r)
        every = {r[3]: r for fn, r in all_refs}
        names = sorted(set(probe_names) | set(every))
        if names:
            pr = drivers.run_extprobe(new, srel, names, ctx.scratch)
            for name in names:
                r = every.get(name) or probe_names[name][3]
                matches = [n for n in post_list if ref_matches(r, n)]
                kind, val = pr[name]
                ctx.count("lookups_probed")
                # ---- S5: 0 or >= 2 matches raise; exactly one returns that file's bytes
                if len(matches) != 1:
                    ctx.count("probe_missing_or_ambiguous_prefix")
                    if kind != "exc":
                        viol("S5", f"lookup-with-{len(matches)}-matches-returned-data", f"step {si} {hist}: external({name!r}) matches {matches} but loading returned data")
                else:
                    want = hashlib.sha256(post_list[matches[0]]).hexdigest()
                    if kind != "ok" or val != want:
                        viol("S5", "unique-lookup-does-not-return-the-file", f"step {si} {hist}: external({name!r}) -> {pr[name]}, file {matches[0]}")
                if name in probe_names:
                    sid, h, sfx, r = probe_names[name]
                    if not matches:
                        viol("S6", "reference-written-without-stored-data", f"step {si} {hist} hash-length={cfg.get('hash_length')}: the session wrote external({name!r}) for data {h[:12]}{sfx} but the storage holds {sorted(post_list)}")
                    elif len(matches) == 1 and not matches[0].startswith(h):
                        viol("S6", "reference-resolves-to-other-data", f"step {si} {hist}: external({name!r}) written for {h[:12]}{sfx} resolves to {matches[0]}")
        files = new
    out["abstract"].append("|".join(hist) + f"|hl={case['config'].get('hash_length')}|sd={'abs' if (case['config'].get('storage_dir') or '').startswith('$W') else case['config'].get('storage_dir')}")
    out["sample"] = {"history": hist, "config": case["config"], "storage": sorted(listing(files, storage_rel(cfg)))[:6]}
    return out


def shrink(case):
    steps = case["steps"]
    for i in range(len(steps)):
        if len(steps) > 1:
            yield dict(case, steps=steps[:i] + steps[i + 1:])
    for i, s in enumerate(steps):
        if s.get("select") is not None:
            ns = [dict(x) for x in steps]
            del ns[i]["select"]
            yield dict(case, steps=ns)
    for p in W.shrink_program(case["program"]):
        yield dict(case, program=p)
    for k in ("hash_length", "storage_dir"):
        if case["config"].get(k) is not None:
            yield dict(case, config=dict(case["config"], **{k: None}))
