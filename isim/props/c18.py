"""C18 - end-of-session processing completes for every test program.

Faults are injected into the *test phase*: raising statements at any position, __eq__ that raises
(during list alignment, in the final comparison), unorderable bound comparisons, uncopyable values,
misuse (two operations on one snapshot, changing hand-written argument), nested snapshots whose
parent is replaced / deleted by the alignment / reached only while aligning.  Then the session ends.
Oracle: collecting, reporting and applying changes finishes without an internal error in both
executors, and the tests scheduled around the faulty one are processed as if it had not run (their
sites get the reference model's values) - the clause that exposes state leaking out of a failed
comparison.
"""
import copy
import re

from .. import drivers, sim
from ..gen import program as P
from ..gen import values as V
from ..gen import workload as W
from ..model import MISSING, SessionModel, value_equal
from ..prng import sub
from .c01 import draw_fmt, fmt_tag

ID = "C18"
PROBES = ['probe_trouble_executed', 'sites_judged']  # reach probes: counters that must be non-zero in a run (a zero is printed and recorded)
LEVEL = "exploration"
BUDGET = {"quick": 1200, "thorough": 50000}
WALL = {"quick": 300, "thorough": 3400}
TECHNIQUE = "deterministic simulation with fault injection into the test phase: seeded programs whose tests raise / misbehave at scheduler-chosen positions, followed by session end in both executors; reference model for the unaffected tests"
LEVEL_TEXT = ("seeded search over programs (generators of C02/C05/C14) with 0-3 injected test-phase faults at random positions in the schedule and all "
              "approved sets; oracle: no exception leaves session-finish / run_inline, no overlap assertion, and sites of well-behaved tests hold the "
              "model's values; sampling, not proof")
LEVEL_NOTE = "trusted: reference model for the well-behaved sites; the fault vocabulary is the one listed in RULE (documented usage only)"
RULE = ("one run = program (1-2 files, 1-4 tests, 1-5 ordinary sites with arbitrary previous content) + 0-3 trouble events (raise, EvilEq in list "
        "alignment, RaisesEq, unorderable bound, BadCopy, second operation on one snapshot, nested snapshot deleted / replaced / kept by the alignment, "
        "dict sub-snapshot with nested snapshot) x approved set x executor; distinct = (trouble kinds, approved set, executor, position class); "
        "non-trivial = at least one trouble event executed before an ordinary test")
RULE += " Dimensions added while testing against seeded changes: leftover temp files of a killed earlier session in the durable start state; test files with a UTF-8 byte order mark; a project function of its own named external; short-report sessions; sessions started outside the project; outsourced externals; values of one type whose repr is code for some instances only; values of one type whose repr is code for some instances only; a helper module imported under two names."
ASSUMPTIONS = ["trouble sites themselves are exempt from the value clause", "the documented 'no test_*() functions' usage error of run_inline is not reachable (every program has tests)"]
REAL_VS_STUB = {
    "real": ["inline_snapshot library / plugin from /repo/src", "pytest session-finish hook (plugin executor)", "Example.run_inline", "black"],
    "stub": ["the test-phase faults (vocabulary classes in simlib.py: EvilEq, RaisesEq, BadCopy)", "formatter states", "the user"],
}
CATS = ["create", "fix", "trim", "update"]
TROUBLE = ["badcopy_existing", "subsub_nondict", "in_on_nonlist", "evil_dict_retry", "evil_dict_retry", "unorderable", "evil_align", "raiseseq_root", "nested_deleted", "nested_replaced", "nested_kept", "badcopy", "mixed_ops", "nested_dict", "evil_in", "nested_in_dictvalue"]


def add_trouble(rng, f, kind, n):
    sid, eid = f"z{n}", f"ez{n}"
    style = rng.choice(["assert", "rec"])
    site = {"op": "eq", "place": "direct", "arg": None, "prev": None, "trouble": kind}
    ev = {"t": "cmp", "eid": eid, "site": sid, "style": style}
    extra = []
    if kind == "unorderable":
        site.update(op=rng.choice(["le", "ge"]), arg=rng.choice(["5", "[1, 2]", "(1, 2)"]))
        ev["vals"] = [["str", "a"]] if site["arg"] == "5" else [["int", 3]]
        if rng.random() < 0.5:
            ev["vals"] = ev["vals"] * 2
    elif kind == "evil_align":
        site.update(arg=rng.choice(["[1, 2, 3]", "[0, 2]", "(4, 5)"]))
        ev["vals"] = [["list" if site["arg"].startswith("[") else "tuple", [["evileq", 1], ["int", 2]]]]
    elif kind == "badcopy_existing":
        # an uncopyable value meets a snapshot that already has content: usage error in the test, nothing recorded, session end must cope
        site.update(op=rng.choice(["in", "le", "ge"]))
        site["arg"] = "[1]" if site["op"] == "in" else "5"
        ev["vals"] = [["badcopy", 1]]
    elif kind == "subsub_nondict":
        # s[key][key2] where s[key] is not a dict
        site.update(arg="0")
        ev["vals"] = [["int", 0]]
        extra = [{"t": "stmt", "text": f"rec({eid + 's'!r}, lambda: snapshot_alias({{'a': 5, 'b': [1]}})['a']['b'] == 1)"},
                 {"t": "stmt", "text": f"rec({eid + 't'!r}, lambda: 1 in snapshot_alias({{'a': 5, 'b': [1]}})['b']['c'])"}]
    elif kind == "in_on_nonlist":
        # `x in snapshot(<not a list>)`: plain python raises TypeError (int) or answers (tuple); session end must cope with both
        site.update(op="in", arg=rng.choice(["5", "(1, 2)", '{"a": 1}', "DCN(k=0)"]))
        ev["vals"] = [["int", rng.choice([1, 7])]]
    elif kind == "evil_in":
        site.update(op="in", arg="[1, 2]")
        ev["vals"] = [["evileq", 1]]
    elif kind == "raiseseq_root":
        site.update(arg=rng.choice(["5", None]))
        ev["vals"] = [["raiseseq", 1]]
    elif kind == "nested_deleted":
        site.update(arg="[snapshot(3), 7]")
        ev["vals"] = [["list", [["int", 7]]]]
    elif kind == "nested_replaced":
        site.update(arg='{"a": [snapshot(1)], "b": 2}')
        ev["vals"] = [["dict", [[["str", "a"], ["int", 5]], [["str", "b"], ["int", 2]]]]]
    elif kind == "nested_kept":
        site.update(arg="[snapshot(3), 7]")
        ev["vals"] = [["list", [["int", 3], ["int", 7], ["int", 8]]]]
    elif kind == "nested_dict":
        site.update(op="item", arg='{"k": snapshot(1), "u": snapshot()}')
        ev["vals"] = [["int", 2]]
        ev["key"] = ["str", "k"]
        ev["cop"] = "eq"
    elif kind == "nested_in_dictvalue":
        site.update(arg='{"k": snapshot([1, snapshot(2)])}')
        ev["vals"] = [["dict", [[["str", "k"], ["list", [["int", 1], ["int", 3]]]]]]]
    elif kind == "badcopy":
        ev["vals"] = [["badcopy", 1]]
    elif kind == "evil_dict_retry":
        # the first keys produce changes, a later value raises in its comparison, and the same snapshot is evaluated again
        site.update(place=rng.choice(["func", "lam"]), arg=rng.choice(['{"a": 1, "b": 5}', '{"a": 1, "b": 5, "c": [1]}']))
        ev["vals"] = [["dict", [[["str", "a"], ["int", 2]], [["str", "b"], ["evileq", 1]]]]]
        second = rng.choice([["dict", [[["str", "a"], ["int", 2]], [["str", "b"], ["evileq", 1]]]], ["dict", [[["str", "a"], ["int", 2]], [["str", "b"], ["int", 5]]]]])
        extra = [{"t": "cmp", "eid": eid + "r", "site": sid, "vals": [second], "style": "rec"}]
    elif kind == "mixed_ops":
        site.update(place="func", arg=rng.choice([None, "5"]))
        ev["vals"] = [["int", 5]]
        extra = [{"t": "stmt", "text": f"rec({eid + 'b'!r}, lambda: 4 <= get_{sid}())"}]
    f["sites"][sid] = site
    t = rng.choice(f["tests"])
    pos = rng.randint(0, len(t["events"]))
    t["events"][pos:pos] = [ev] + extra
    return t["name"]


def generate(seed, tier="quick"):
    rng = sub(seed, "program")
    prof = V.draw_profile(sub(seed, "profile"), max_depth=2)
    prof.special = [s for s in prof.special if s != "norepr"]
    prog = W.gen_program(rng, prof, {"prev": ["none", "same", "other", "edit", "slack", "wrong", "subset", "superset"], "n_files": (1, 2),
                                     "n_sites": (1, 4), "n_tests": (1, 4), "styles": ["assert", "rec"], "raise_events": 0.2, "hand": 0.4, "idle": 0.2})
    trng = sub(seed, "trouble")
    kinds = []
    for k in range(trng.choice([0, 1, 1, 2, 3])):
        kind = trng.choice(TROUBLE)
        kinds.append(kind)
        add_trouble(trng, trng.choice(prog["files"]), kind, k + 1)
    if trng.random() < 0.15:
        W.add_mutation_test(trng, prog["files"][0], style="rec")
    frng = sub(seed, "flags")
    approved = frng.choice([["create", "fix"], list(CATS), ["fix"], [], ["create"], ["trim", "update"], [c for c in CATS if frng.random() < 0.5]])
    driver = "plugin" if sub(seed, "driver").random() < 0.3 else "inline"
    erng = sub(seed, "externals")
    if driver == "plugin" and erng.random() < 0.4:
        # outsourced data: session end also persists / prunes / trims files of the external storage
        from . import c13

        f = prog["files"][0]
        need_import = False
        for k in range(erng.randint(1, 2)):
            sid = f"x{k}"
            prevx = erng.choice([None, None, '"old"', 'external("00000000aaaa*.txt")'])
            need_import = need_import or (prevx is not None and "external" in prevx)
            f["sites"][sid] = {"op": "eq", "place": "direct", "arg": prevx, "prev": None, "trouble": "externals"}  # not judged by the value model
            erng.choice(f["tests"])["events"].append({"t": "cmp", "eid": f"ex{k}", "site": sid, "vals": [c13.wrap(erng, c13.ext_value(erng))], "style": "rec"})
        if need_import:
            f["header"]["imports"] = "explicit"
            f["header"].setdefault("pre", []).insert(0, "from inline_snapshot import external")
        kinds.append("externals")
        if erng.random() < 0.5:
            approved = erng.choice([["create", "trim"], ["fix", "trim"], list(CATS), ["create", "fix", "trim"]])
    urng = sub(seed, "own-external")
    if driver == "plugin" and "externals" not in kinds and urng.random() < 0.15:
        # the project has a function of its own with the name `external`, called with a string constant: not a reference to outsourced data
        f = prog["files"][0]
        f["header"].setdefault("pre", []).extend(["def external(name):  # the project's own helper", "    return 'data/' + name", "",
                                                  f"CONFIG = external({urng.choice(['settings', 'data/cfg.json', 'e1.json', 'x*y'])!r})"])
        kinds.append("own-function-named-external")
    leftover = driver == "plugin" and sub(seed, "leftover").random() < 0.12  # see execute
    drng_ = sub(seed, "double-import")
    if driver == "plugin" and drng_.random() < 0.08:
        # a helper module with a wrong snapshot that is imported under two names in one session (two code objects, one call in the source)
        prog["extra_files"] = {"hlpdir/__init__.py": "", "hlpdir/hlp.py": "from inline_snapshot import snapshot\n\n\ndef check_h(v):\n    return v == snapshot(4)\n"}
        prog["files"][0]["tests"].append({"name": "test_zz_double_import", "events": [
            {"t": "stmt", "text": "import os, sys"},
            {"t": "stmt", "text": "sys.path.insert(0, os.path.join(os.path.dirname(os.path.abspath(__file__)), 'hlpdir'))"},
            {"t": "stmt", "text": "import hlp"},
            {"t": "stmt", "text": "import hlpdir.hlp as hlp2"},
            {"t": "stmt", "text": "rec('dbl1', lambda: hlp.check_h(5))"},
            {"t": "stmt", "text": "rec('dbl2', lambda: hlp2.check_h(5))"}]})
        kinds.append("module-imported-under-two-names")
    srng = sub(seed, "sometimes-code")
    if srng.random() < 0.1:
        # values of ONE type whose repr is Python code for some instances and not for others (the parsable one is met first)
        f = prog["files"][0]
        f["sites"]["sc1"] = {"op": "eq", "place": "direct", "arg": None, "prev": None, "trouble": "repr-sometimes-code"}
        f["sites"]["sc2"] = {"op": srng.choice(["eq", "in"]), "place": "direct", "arg": None, "prev": None, "trouble": "repr-sometimes-code"}
        t = {"name": "test_00_sometimes_code", "events": [{"t": "cmp", "eid": "esc1", "site": "sc1", "vals": [["raw", "NoCodeSometimes(3)"]], "style": "rec"},
                                                         {"t": "cmp", "eid": "esc2", "site": "sc2", "vals": [["raw", "[NoCodeSometimes(0), 1]"]], "style": "rec"}]}
        f["tests"].insert(0, t)
        kinds.append("repr-sometimes-code")
    if sub(seed, "bom").random() < 0.06:
        prog["files"][0]["header"]["bom"] = True  # the file starts with a UTF-8 byte order mark
        kinds.append("byte-order-mark")
    W.sprinkle_uni(prog, sub(seed, "uni"), 0.12)
    start = None
    if driver == "plugin":
        start = sub(seed, "startdir").choice([None, None, None, "from_parent", "from_sibling"])
    return {"program": prog, "approved": approved, "driver": driver, "fmt": draw_fmt(sub(seed, "fmt")), "kinds": kinds, "start": start,
            "short_report": driver == "plugin" and sub(seed, "short-report").random() < 0.2, "leftover": leftover}


exc_signature = sim.exc_signature


def nested_spans(text):
    """(lineno, col_start, col_end) of the argument of every snapshot() call nested inside another snapshot() call"""
    import ast

    out = []
    try:
        tree = ast.parse(text.lstrip("\ufeff"))  # (a byte order mark is not part of the code)
    except SyntaxError:
        return out

    def visit(node, depth):
        is_snap = isinstance(node, ast.Call) and isinstance(node.func, ast.Name) and node.func.id == "snapshot"
        if is_snap and depth >= 1:
            out.append((node.lineno, node.col_offset, node.end_lineno, node.end_col_offset))
        for ch in ast.iter_child_nodes(node):
            visit(ch, depth + (1 if is_snap else 0))

    visit(tree, 0)
    return out


def overlap_kind(tb, texts):
    """narrow classification of an overlap assertion: does one of the two overlapping edits lie inside a nested snapshot()
    call while the other one covers that call (the parent removes / replaces the element that holds it)?"""
    rs = re.findall(r"start=SourcePosition\(lineno=(\d+), col_offset=(\d+)\), end=SourcePosition\(lineno=(\d+), col_offset=(\d+)\)", tb or "")
    if len(rs) < 2:
        return "overlap"
    a, b = [tuple(map(int, r)) for r in rs[-2:]]
    for text in texts:
        for (l1, c1, l2, c2) in nested_spans(text):
            for inner, outer in ((a, b), (b, a)):
                inside = (l1, c1) <= (inner[0], inner[1]) and (inner[2], inner[3]) <= (l2, c2)
                covers = (outer[0], outer[1]) <= (l1, c1) and (l2, c2) <= (outer[2], outer[3]) or ((outer[0], outer[1]) <= (inner[0], inner[1]) and (inner[2], inner[3]) <= (outer[2], outer[3]))
                if inside and covers:
                    return "overlap:nested-snapshot-edited-and-removed-by-its-parent"
    return "overlap"


def execute(case, ctx):
    prog = copy.deepcopy(case["program"])
    driver, fmt, approved = case["driver"], case["fmt"], set(case["approved"])
    out = {"violations": [], "discards": {}, "abstract": []}

    def viol(clause, sig, detail):
        if not any(v["clause"] == clause and v["sig"] == sig for v in out["violations"]):
            out["violations"].append({"clause": clause, "sig": sig, "detail": detail})

    files, orders = P.render(prog, drivers.simlib_text())
    if driver == "plugin":
        files["pyproject.toml"] = sim.pyproject_for(fmt)
    if case.get("leftover") and driver == "plugin":
        # durable state left behind by an earlier session of this directory that was killed while it rewrote the files (power loss, OOM killer):
        # the temporary files of the atomic replace are still there, next to the intact test files
        for f in prog["files"]:
            files["." + f["name"] + ".inline-snapshot.tmp"] = files[f["name"]][: max(1, len(files[f["name"]]) // 2)]
        kinds_extra = "leftover-temp-files-of-a-killed-session"
        ctx.count("probe_leftover_temp_files_of_a_killed_session")
    flags = ",".join((["report"] if driver == "plugin" else []) + sorted(approved)) or None
    if driver == "plugin" and case.get("short_report"):
        flags = "short-report"
        approved = set()
        ctx.count("probe_short_report_session")
    spec = {"flags": flags, "fmt": fmt}
    if case.get("start"):
        spec[case["start"]] = True  # pytest is started outside the project directory, which is named on the command line
        ctx.count("probe_session_started_outside_the_project_directory")
    new, res = sim.run_session(ctx, driver, files, spec)
    ctx.count("clauses_checked")
    kinds = sorted({s.get("trouble") for f in prog["files"] for s in f["sites"].values() if s.get("trouble")})
    out["abstract"].append(f"{'+'.join(kinds) or 'none'}|{'+'.join(sorted(approved))}|{driver}")
    first_file = files[prog["files"][0]["name"]]
    # ---- session-finish completes
    if res.get("status") != "ok":
        viol("completes", f"session-process-died:{res.get('status')}", f"driver={driver} approved={sorted(approved)}\n{res.get('out', '')[-1500:]}")
        return out
    tb = None
    if driver == "plugin":
        tb = res.get("finish_exc") or res.get("main_exc")
        if tb is None and "INTERNALERROR" in res.get("out", ""):
            tb = "\n".join(l for l in res["out"].splitlines() if "INTERNALERROR" in l)[-3000:]
    elif res.get("exc") is not None:
        tb = res.get("exc_tb") or res.get("exc")
    if tb is not None:
        sig = exc_signature(tb)
        if sig.endswith("@_rewrite_code.py:_check"):
            sig = sig + ":" + overlap_kind(tb, [v for k, v in files.items() if k.startswith("test_")])
        viol("completes", f"internal-error:{sig}",
             f"driver={driver} approved={sorted(approved)} fmt={fmt_tag(fmt)} trouble={kinds}\n{tb[-1800:]}\n--- {prog['files'][0]['name']}\n{first_file[:1500]}")
        return out
    # ---- the other tests are processed as if the faulty one had not run
    try:
        before = sim.site_map(files, orders)
        after = sim.site_map(sim.to_text(new), orders)
    except SyntaxError as ex:
        viol("valid-python", "unparsable-after-session", f"driver={driver} approved={sorted(approved)} trouble={kinds}: {ex}\n" + "\n".join(
            v.decode("utf-8", "replace")[:800] for k, v in new.items() if k.startswith("test_")))
        return out
    sidx = W.site_index(prog)
    ops = {sid: s["op"] for sid, (f, s) in sidx.items()}
    trouble_sites = {sid for sid, (f, s) in sidx.items() if s.get("trouble")}
    src, bad = {}, set(trouble_sites)
    for (fn, sid), call in before.items():
        if sid in trouble_sites:
            src[sid] = MISSING
            continue
        try:
            src[sid] = MISSING if call.arg_text is None else P.eval_arg(call.arg_text)
        except Exception:
            src[sid] = MISSING
            bad.add(sid)
    for sid in ops:
        src.setdefault(sid, MISSING)
    rec = sim.rec_by_eid(res.get("rec", []))
    # control flow of tests that contain trouble events is taken from the recording, not from the model:
    # the model runs only the ordinary events that the session really executed
    events = []
    for fn, tn, e in W.events_in_order(prog):
        if e.get("t") == "cmp" and e["site"] in trouble_sites:
            continue
        if e.get("t") == "stmt":
            continue
        if e.get("t") == "cmp":
            n = len(rec.get(e["eid"]) or [])
            want_n = len(e["vals"]) if "vals" in e else 1
            if e.get("style", "assert") == "assert":
                if n == 0:
                    # not reached, or the assert failed on its first value: the site may or may not have observed it -> exempt
                    reached_unknown = True
                    bad.add(e["site"])
                    continue
                if n < want_n:
                    bad.add(e["site"])
            elif n == 0:
                continue
            elif n < want_n:
                bad.add(e["site"])
        if e.get("t") == "raise":
            continue
        events.append((fn, tn, dict(e, style="rec") if e.get("t") == "cmp" else e))
    m = SessionModel(src, ops, approved).run(events, V.pyval)
    judged = 0
    for (fn, sid), call in after.items():
        if sid in bad:
            continue
        sm = m.sites[sid]
        if sm.exempt():
            continue
        evs = [e for f2, t2, e in events if e.get("t") == "cmp" and e["site"] == sid]
        if any(isinstance(a, str) for e in evs for a in (rec.get(e["eid"]) or [])):
            continue
        try:
            want = sm.after(approved) if sm.kind is not None else src[sid]
            got = MISSING if call.arg_text is None else P.eval_arg(call.arg_text)
        except Exception:
            continue
        judged += 1
        ctx.count("sites_judged")
        if not value_equal(sm.kind, got, want):
            viol("later-tests", f"{sm.kind}:site-of-well-behaved-test-not-processed",
                 f"driver={driver} approved={sorted(approved)} trouble={kinds} site {sid} op={ops[sid]}\n  before {before[(fn, sid)].arg_text!r:.200}\n"
                 f"  observed {[repr(x)[:60] for x in sm.obs][:6]}\n  expected {want!r:.300}\n  found {call.arg_text!r:.300}\n--- {fn}\n{files[fn][:1500]}")
    if kinds:
        ctx.count("probe_trouble_executed")
    out["sample"] = {"trouble": kinds, "approved": sorted(approved), "driver": driver, "file": first_file[:800]}
    return out


def shrink(case):
    import json

    for p in W.shrink_program(case["program"]):
        yield dict(case, program=p)
    for c in case["approved"]:
        yield dict(case, approved=[a for a in case["approved"] if a != c])
    if case["fmt"]["kind"] != "black":
        yield dict(case, fmt={"kind": "black"})
