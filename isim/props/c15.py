"""C15 - faults while rewriting never leave a half-written file or a dangling external.

Fault enumeration per workload: a fault-free twin session records the seam trace (every file,
storage and formatter call of inline-snapshot with its phase); then EVERY call index from 'changes
computed' (session-finish phase) to the end of the session is hit with EVERY applicable action
(crash before / after, errno fault, short write, formatter exception / non-zero exit / unparsable
output / empty output), each followed by a restart (a plain next session on the surviving
directory, whose start prunes '*-new.*').  Workloads are found by seeded search.
"""
import ast
import os
import re

from .. import drivers, sim
from ..gen import program as P
from ..gen import values as V
from ..gen import workload as W
from ..prng import sub
from ..world import read_tree
from . import c13
from .c01 import fmt_tag

ID = "C15"
PROBES = ['fault_sessions', 'restarts', 'early_phase_crash_sessions', 'probe_formatter_failed_session_completed', 'probe_unparsable_formatter_output', 'references_resolved', 'inline_fault_sessions']  # reach probes: counters that must be non-zero in a run (a zero is printed and recorded)
LEVEL = "fault_enumeration"
BUDGET = {"quick": 10, "thorough": 120}
WALL = {"quick": 420, "thorough": 3400}
TECHNIQUE = "deterministic simulation with fault injection: per workload every seam index of the session-finish phase x every applicable fault kind, each followed by a simulated restart; workloads by seeded search"
LEVEL_TEXT = ("for each seeded workload (change set over 1-3 files with 0-3 externals, persist + rewrite + trim all happening) the fault space "
              "{call index in the finish phase} x {crash before/after, errno, short write, formatter exception / exit 1 / garbage / empty} is swept "
              "completely in the thorough tier (sampled above 40 points in the quick tier, always keeping open / write / rename / unlink / formatter calls); "
              "after the fault and again after a restart the invariants I1-I4 are evaluated")
LEVEL_NOTE = ("process death is os._exit(137) inside the seam wrapper of a forked child: no buffer is flushed, no finally runs (= SIGKILL); power-loss "
              "semantics (un-fsynced page cache) are not modelled; the fault-free twin defines 'complete new content' up to AST equality (layout may "
              "differ when the formatter failed)")
RULE = ("one run = one workload swept over its fault space; evaluations counted in coverage.fault_sessions; distinct = (seam kind, phase, action, position of "
        "the file in the change set) tuples that fired; non-trivial = a fault that fired inside session-finish of a session with a non-empty change set")
RULE += " Dimensions added while testing against seeded changes: formatter faults: killed by a signal after a parsable prefix, exit 1 after a parsable prefix, answer in a legacy 8-bit code page (fair: only where the bytes are not UTF-8), black returning broken text; I3 for every failure of the format-command; hash-length 64 / 8 in the swept workloads; formatter failure messages with markup-like brackets; read errors of the unused-externals scan always among the sampled fault points."
ASSUMPTIONS = ["faults are injected one per session (single-fault model), then the restart is fault-free",
               "I1 is judged per test file: previous bytes, or parses and is AST-equal to the fault-free twin's content"]
REAL_VS_STUB = {
    "real": ["pytest", "inline_snapshot plugin + library from /repo/src", "tmpfs directory", "a real process that really dies", "black", "Example.run_inline (I4)"],
    "stub": ["fault-injecting wrappers on pathlib / os / open / black.format_str / subprocess.run", "format-command (in-process stub)", "the user"],
}

APPLICABLE = {
    "read_text": ["crash_before", "oserror"], "read_bytes": ["crash_before", "oserror"], "exists": ["crash_before"],
    "glob": ["crash_before", "oserror"], "iterdir": ["crash_before", "oserror"], "mkdir": ["crash_before", "oserror"],
    "write_text": ["crash_before", "crash_after", "oserror", "short_write"], "write_bytes": ["crash_before", "crash_after", "oserror", "short_write"],
    "open_trunc": ["crash_before", "crash_after", "oserror"], "open_write": ["crash_before", "crash_after", "oserror"],
    "write": ["crash_before", "crash_after", "oserror", "short_write"],
    "rename": ["crash_before", "crash_after", "oserror"], "replace": ["crash_before", "crash_after", "oserror"], "unlink": ["crash_before", "crash_after", "oserror"],
    "fsync": ["crash_before", "oserror"],
    "fmt_black": ["crash_before", "fmt_raise", "fmt_black_truncated"], "fmt_cmd": ["crash_before", "fmt_exit1", "fmt_garbage", "fmt_empty", "fmt_killed", "fmt_exit1_partial", "fmt_nonutf8"],
}
IMPORTANT = {"open_trunc", "open_write", "write", "write_text", "write_bytes", "rename", "replace", "unlink", "fmt_black", "fmt_cmd"}


def generate(seed, tier="quick"):
    rng = sub(seed, "program")
    prof = V.draw_profile(sub(seed, "profile"), max_depth=2, max_len=3, str_len=8)
    prof.special = [s for s in prof.special if s not in ("norepr", "complex")]
    prog = W.gen_program(rng, prof, {"prev": ["none", "none", "other", "edit", "slack", "superset", "wrong"], "n_files": (1, 3), "n_sites": (1, 3),
                                     "n_tests": (1, 2), "styles": ["assert", "rec"], "places": ["direct", "direct", "func", "module"], "max_obs": 3})
    lr = sub(seed, "layout")
    for f in prog["files"]:
        f["header"] = W.gen_layout_c03(lr)  # comments, non-ASCII, tabs, CRLF line ends: the write path may depend on them
        if lr.random() < 0.25:
            f["header"]["eol"] = "crlf"
            f["header"].pop("tabs", None)
    # externals: 0-3 sites comparing outsourced data
    xr = sub(seed, "externals")
    n = 0
    for f in prog["files"]:
        for k in range(0 if (seed % 10**6) % 3 == 0 else xr.choice([0, 1, 1, 2])):  # the run_inline executor has no storage
            n += 1
            sid = f"x{n}"
            f["sites"][sid] = {"op": "eq", "place": "direct", "arg": None, "prev": None}
            xr.choice(f["tests"])["events"].append({"t": "cmp", "eid": f"ex{n}", "site": sid, "vals": [c13.wrap(xr, c13.ext_value(xr))], "style": "rec"})
    frng = sub(seed, "fmt")
    # few workloads per run: the formatter party and the executor are assigned round-robin over the run index,
    # so that every batch of ten sweeps black, a format-command, an absent formatter and the run_inline executor
    i = seed % 10**6
    kind = ["black", "cmd", "black", "cmd", "absent"][i % 5]
    if kind == "cmd":
        fmt = {"kind": "cmd", "stub": "black", "mode": {"line_length": frng.choice([40, 88])}}
    else:
        fmt = {"kind": kind}
    return {"program": prog, "fmt": fmt, "flags": sub(seed, "flags").choice(["create,fix,trim", "create,fix", "create,fix,trim,update"]),
            "hash_length": [None, 8, None, 64][i % 4],  # (64 = the whole hash: references are written without the "*" that matches the "-new" infix)
            "old_external": sub(seed, "old").random() < 0.6, "inline": (seed % 10**6) % 3 == 0, "max_points": 32 if tier == "quick" else 400, "early_points": 4 if tier == "quick" else 60}


def ast_equal(a, b):
    try:
        return ast.dump(ast.parse(a)) == ast.dump(ast.parse(b))
    except SyntaxError:
        return False


def check_I1(pre, post, twin, names):
    """-> [(file, why)] for test files that are neither their previous content nor a complete new content"""
    bad = []
    for fn in names:
        a, b, t = pre.get(fn), post.get(fn), twin.get(fn)
        if b == a:
            continue
        if b is None:
            bad.append((fn, "file disappeared"))
            continue
        try:
            text = b.decode("utf-8")
            ast.parse(text)
        except (SyntaxError, UnicodeDecodeError, ValueError) as ex:
            bad.append((fn, "empty file" if not b else f"does not parse ({type(ex).__name__}), {len(b)} bytes vs {len(a or b'')} before / {len(t or b'')} complete"))
            continue
        if t is not None and ast_equal(text, t.decode("utf-8")):
            continue
        bad.append((fn, "empty file" if not b.strip() else "parses but is neither the previous nor the complete new content"))
    return bad


def execute(case, ctx):
    prog, fmt, flags = case["program"], case["fmt"], case["flags"]
    out = {"violations": [], "discards": {}, "abstract": []}

    cur = [None]

    def viol(clause, sig, detail):
        if not any(v["clause"] == clause and v["sig"] == sig for v in out["violations"]):
            out["violations"].append({"clause": clause, "sig": sig, "detail": detail, "point": cur[0]})

    files, orders = P.render(prog, drivers.simlib_text())
    files["pyproject.toml"] = sim.pyproject_for(fmt, tool={"hash-length": case["hash_length"]} if case.get("hash_length") else None)
    if case.get("old_external"):
        files[f".inline-snapshot/external/{c13.hashlib.sha256(b'stale').hexdigest()}.txt"] = b"stale"
    pre = sim.to_bytes(files)
    names = sorted(k for k in pre if k.startswith("test_"))
    srel = ".inline-snapshot/external"
    spec = {"flags": flags, "fmt": fmt}
    twin, tres = sim.run_session(ctx, "plugin", pre, spec)
    if not sim.session_completed("plugin", tres):
        out["discards"]["twin-session-did-not-complete(C18)"] = 1
        return out
    if all(twin.get(n) == pre.get(n) for n in names):
        out["discards"]["empty-change-set"] = 1
        return out
    trace = tres["trace"]
    points = []
    for idx, kind, rel, phase in trace:
        if phase != "finish":
            continue
        for act in APPLICABLE.get(kind, ["crash_before"]):
            points.append((idx, kind, rel, act))
    # crash points before session-finish (configure: prune / .gitignore; test phase: outsource writes '-new' files):
    # the process dies before any rewriting, so every test file must be byte-identical and no reference may dangle
    early = [(idx, kind, rel, act) for idx, kind, rel, phase in trace if phase != "finish" and kind in ("write_bytes", "write_text", "mkdir", "unlink", "glob", "exists")
             for act in (["crash_before", "crash_after"] if kind in ("write_bytes", "write_text", "unlink", "mkdir") else ["crash_before"])]
    if early:
        erng = sub(len(early), "early" + str(len(trace)))
        erng.shuffle(early)
        early = sorted(early[: case.get("early_points", 4)])
    if len(points) > case.get("max_points", 40):
        # (the reads behind the last replace belong to the scan for unused externals that decides what trim deletes: always kept, errors only)
        last_replace = max([i for i, k, r, ph in trace if k == "replace"] or [10**9])
        keep = [p for p in points if p[1] in IMPORTANT or (p[1] == "read_text" and p[0] > last_replace and p[3] == "oserror")]
        rest = [p for p in points if p not in keep]
        rng = sub(case.get("max_points", 40), "points" + str(len(points)))
        rng.shuffle(rest)
        points = sorted(keep + rest[: max(0, case["max_points"] - len(keep))])
    # ordinal of each point among the finish-phase events of its kind (stable name of a fault point across shrinking)
    ordinal = {}
    seen_kind = {}
    for idx, kind, rel, phase in trace:
        key = (kind, phase == "finish")
        ordinal[idx] = seen_kind.get(key, 0)
        seen_kind[key] = ordinal[idx] + 1
    early_idx = {p[0] for p in early}
    if case.get("focus"):
        fk, fo, fa, fdrv = case["focus"][:4]
        fearly = bool(case["focus"][4]) if len(case["focus"]) > 4 else False
        allp = [(i, k, r, a) for i, k, r, ph in trace if (ph != "finish") == fearly for a in (APPLICABLE.get(k, ["crash_before"]) if not fearly else ["crash_before", "crash_after"])]
        points = [p for p in allp if fdrv == "plugin" and p[1] == fk and ordinal[p[0]] == fo and p[3] == fa]
        early_idx = {p[0] for p in points} if fearly else set()
    else:
        points = sorted(early + points)
    twin_rb = sim.readback(ctx, twin)
    n_changed = sum(1 for n in names if twin.get(n) != pre.get(n))
    write_order = [rel for idx, kind, rel, phase in trace if kind in ("open_trunc", "open_write") or (kind in ("replace", "write_text", "write_bytes") and rel in names)]
    ctx.count("workloads_swept")
    ctx.count("fault_points", len(points))
    for idx, kind, rel, act in points:
        cur[0] = [kind, ordinal[idx], act, "plugin", idx in early_idx]
        post, res = sim.run_session(ctx, "plugin", pre, dict(spec, plan={str(idx): act}))
        fired = [f for f in res.get("fired", []) if f[0] == idx]
        if not fired:
            # the run took another path before reaching the index (only possible if the session is not deterministic)
            # ... or the fault could not take effect there (a legacy-encoding answer of the formatter for ASCII-only text)
            out["discards"]["fault-index-not-reached-or-without-effect"] = out["discards"].get("fault-index-not-reached-or-without-effect", 0) + 1
            continue
        ctx.count("fault_sessions")
        pos = write_order.index(rel) if rel in write_order else -1
        out["abstract"].append(f"{kind}|{'early' if idx in early_idx else 'finish'}|{act}|filepos={pos}/{n_changed}|{fmt_tag(fmt)}")
        crashed = res.get("status") == "crash"
        if act.startswith("crash") and not crashed:
            out["discards"]["crash-did-not-kill"] = out["discards"].get("crash-did-not-kill", 0) + 1
            continue
        where = f"fault {act} at seam #{idx} {kind} {rel} (fmt={fmt_tag(fmt)}, flags={flags}, {n_changed} file(s) in the change set)"
        if idx in early_idx:
            ctx.count("early_phase_crash_sessions")
        if res.get("status") == "ok" and res.get("state_depth") not in (0, None):
            viol("I4-state-popped", f"snapshot-state-not-restored:{act}@{kind}", f"{where}: {res.get('state_depth')} snapshot state(s) still pushed after the session")
        # ---- I1 right after the fault (a crash before session-finish: nothing may have been rewritten at all)
        for fn, why in check_I1(pre, post, pre if idx in early_idx else twin, names):
            viol("I1-file-integrity", f"{why.split(' (')[0].split(',')[0]}:{act}@{kind}", f"{where}: {fn}: {why}\n--- content now\n{post.get(fn, b'')[:400].decode('utf-8', 'replace')}")
        # ---- restart: a plain next session on the surviving directory
        # (session start only: pytest_configure prunes '*-new.*'; the tests are not run, because re-running them would
        #  outsource the same data again and hide a reference whose file was just pruned)
        post2, res2 = sim.run_session(ctx, "plugin", post, {"flags": None, "fmt": {"kind": "black"}, "argv": ["--collect-only"]})
        ctx.count("restarts")
        for fn, why in check_I1(pre, post2, pre if idx in early_idx else twin, names):
            viol("I1-file-integrity", f"{why.split(' (')[0].split(',')[0]}:{act}@{kind}", f"{where}, after restart: {fn}: {why}")
        # ---- I2: after the restart's prune every external(...) resolves to exactly one stored file with matching content
        refs = [(fn, r) for fn in names if fn in post2 for r in c13.references(post2[fn].decode("utf-8", "replace"))]
        if refs:
            lst = c13.listing(post2, srel)
            for fn, r in refs:
                m = [n for n in lst if c13.ref_matches(r, n)]
                ctx.count("references_resolved")
                if len(m) != 1 or not c13.hashlib.sha256(lst[m[0]]).hexdigest().startswith(r[0]):
                    viol("I2-dangling-external", f"reference-unresolvable-after-restart:{act}@{kind}",
                         f"{where}: {fn} references external({r[3]!r}) but after the next session start the storage holds {sorted(lst)}")
        # ---- I3: formatter failure degrades to unformatted but correct code plus a reported problem
        # (every failure of the format-command, whatever its exit status, and an exception of black; black *returning* broken text is not a failure
        #  the library can tell from an answer before it parses the file - there only file integrity is demanded)
        if act in ("fmt_raise", "fmt_exit1", "fmt_exit1_partial", "fmt_garbage", "fmt_empty", "fmt_nonutf8", "fmt_killed"):
            if not sim.session_completed("plugin", res):
                viol("I3-formatter-degrades", f"session-aborted-by-formatter-failure:{act}", f"{where}\n{(res.get('finish_exc') or res.get('main_exc') or res.get('out', ''))[-1200:]}")
            else:
                ctx.count("probe_formatter_failed_session_completed")
                if "Problems" not in res.get("out", ""):
                    viol("I3-formatter-degrades", f"formatter-failure-not-reported:{act}", f"{where}\n{res.get('out', '')[-800:]}")
                rb = sim.readback(ctx, post)
                if sorted(map(str, rb["rec"])) != sorted(map(str, twin_rb["rec"])) or rb["tests"] != twin_rb["tests"]:
                    viol("I3-formatter-degrades", f"code-written-after-formatter-failure-reads-back-differently:{act}", f"{where}\n twin: {twin_rb['tests']} now: {rb['tests']} {rb.get('import_exc')}")
        if act in ("fmt_garbage", "fmt_empty"):
            ctx.count("probe_unparsable_formatter_output")
        # ---- progress once faults stop (reported, not demanded by the statement)
        post3, res3 = sim.run_session(ctx, "plugin", post2, spec)
        if all(ast_equal(post3.get(n, b"").decode("utf-8", "replace"), twin.get(n, b"").decode("utf-8", "replace")) for n in names):
            ctx.count("progress_reached_twin_state_after_faults_stop")
        else:
            ctx.count("progress_not_reached_twin_state")
    # ---- I4 (inline executor): an injected exception leaves the state stack as it was
    if case.get("inline") and not any(n[0] == "ext" for f in prog["files"] for t in f["tests"] for e in t["events"] if e.get("t") == "cmp" for v in e.get("vals", []) for n in V.walk(v)):
        ipre = {k: v for k, v in pre.items() if k.startswith("test_")}
        itwin, ires = sim.run_session(ctx, "inline", ipre, spec)
        if sim.session_completed("inline", ires) and not ires.get("raises"):
            itrace = ires["trace"]
            first = min([t[0] for t in itrace if t[1] in ("open_trunc", "open_write", "fmt_black", "fmt_cmd")] or [10**9])
            ipoints = [(idx, kind, rel, act) for idx, kind, rel, ph in itrace if idx >= first for act in APPLICABLE.get(kind, []) if not act.startswith("crash") or kind in IMPORTANT]
            iord, iseen = {}, {}
            for idx, kind, rel, ph in itrace:
                iord[idx] = iseen.get(kind, 0)
                iseen[kind] = iord[idx] + 1
            ipoints = ipoints[: case.get("max_points", 40)]
            if case.get("focus"):
                fk, fo, fa, fdrv = case["focus"][:4]
                ipoints = [p for p in ipoints if fdrv == "inline" and p[1] == fk and iord[p[0]] == fo and p[3] == fa]
            for idx, kind, rel, act in ipoints:
                cur[0] = [kind, iord[idx], act, "inline", False]
                ipost, r = sim.run_session(ctx, "inline", ipre, dict(spec, plan={str(idx): act}))
                if not [f for f in r.get("fired", []) if f[0] == idx]:
                    continue
                ctx.count("fault_sessions")
                ctx.count("inline_fault_sessions")
                out["abstract"].append(f"{kind}|inline|{act}|{fmt_tag(fmt)}")
                where = f"run_inline: fault {act} at seam #{idx} {kind} {rel} (fmt={fmt_tag(fmt)})"
                if r.get("status") == "crash":
                    d = os.path.join(ctx.scratch, "tmp", "d1")
                    disk = {k: v for k, v in read_tree(d).items() if k.startswith("test_")} if os.path.isdir(d) else {}
                else:
                    disk = {k: v for k, v in ipost.items() if k.startswith("test_")}
                    if r.get("state_depth_delta") not in (0, None) or r.get("active_after"):
                        viol("I4-state-popped", f"snapshot-state-not-restored:{act}@{kind}", f"{where}: stack depth delta {r.get('state_depth_delta')}, active={r.get('active_after')}")
                names_i = sorted(ipre)
                for fn, why in check_I1(ipre, disk, itwin, names_i):
                    rel_fn = rel.split("/")[-1]
                    viol("I1-file-integrity", f"{why.split(' (')[0].split(',')[0]}:{act}@{kind}", f"{where}: {fn}: {why}")
    out["sample"] = {"flags": flags, "fmt": fmt_tag(fmt), "fault_points": len(points), "trace_finish": [[t[1], t[2]] for t in trace if t[3] == "finish"][:40]}
    return out


MIN_BUDGET = 40
EVALUATIONS_COUNTER = "fault_sessions"  # evidence.evaluations = faulty sessions executed (each followed by a restart); runs = workloads swept


def focus(case, violation):
    if violation.get("point"):
        return dict(case, focus=violation["point"], inline=violation["point"][3] == "inline")
    return None


def shrink(case):
    for p in W.shrink_program(case["program"]):
        yield dict(case, program=p)
    if case["fmt"]["kind"] != "black":
        yield dict(case, fmt={"kind": "black"})
    if case.get("old_external"):
        yield dict(case, old_external=False)
    if case.get("inline"):
        yield dict(case, inline=False)
