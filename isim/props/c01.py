"""C01 - a created snapshot reads back as the value that was observed.

History: session(create approved) -> read-back session with inline-snapshot disabled, over the
durable project directory.  Simulator-owned dimensions: the formatter party (black / absent /
failing / format-command stubs), the executor (run_inline / real plugin) and the read-back through
the disk.  Beyond that this is seeded input generation (weak leverage, see DESIGN 4/C01).
"""
import ast

from .. import drivers, sim
from ..gen import program as P
from ..gen import values as V
from ..gen import workload as W
from ..prng import sub

ID = "C01"
PROBES = ['sites_created', 'readbacks', 'probe_hasrepr_site']  # reach probes: counters that must be non-zero in a run (a zero is printed and recorded)
LEVEL = "exploration"
BUDGET = {"quick": 1500, "thorough": 60000}
WALL = {"quick": 240, "thorough": 3000}
TECHNIQUE = "deterministic simulation: seeded session histories (create session -> disabled read-back) over a durable project directory with a simulated formatter party"
LEVEL_TEXT = ("seeded search over generated projects x formatter states x two executors; every run is a two-session history whose "
              "oracle is the read-back of what the first session wrote; sampling, not proof")
LEVEL_NOTE = ("trusted: the harness's own value constructor expressions, ast-based site lookup, CPython; leverage of the simulator is weak "
              "here (formatter party, executor, read-back through the disk); the rest is input generation")
RULE = ("one run = one generated project (1-5 empty snapshot() sites over ==, <=, >=, in, [key]; placements assert / "
        "helper argument / module level / function / lambda / loop; values from the full universe) executed as "
        "session(create) then a read-back with inline-snapshot disabled, under one formatter state; "
        "distinct = (operation, placement, value type-path, formatter state, driver) tuples seen on reached sites; "
        "a run is non-trivial when at least one site was created and read back")
RULE += " Dimensions added while testing against seeded changes: odd constructor shapes (attrs private attribute, dataclass field with init=False, IntFlag bits without a name, complex numbers with an infinite part), keyword-only dataclasses, twin files, late imports, mutation after the comparison; CRLF projects with a CRLF-writing format-command and multi-line strings; files that import HasRepr / external only below module level; an object whose repr is a statement."
ASSUMPTIONS = [
    "dirty-equals is not installed: no dirty-equals workload",
    "values whose deep copy is rejected by the library (usage error) are exempt",
    "hash-seed dependent values (sets of frozensets, mixed unorderable sets) are generated only by C16",
    "with run_inline the HasRepr / external imports are not inserted (C19 finding), so those values are judged through the plugin driver only",
]
REAL_VS_STUB = {
    "real": ["inline_snapshot library and pytest plugin from /repo/src", "pytest", "executing", "asttokens", "black (states black / cmd:black)",
             "Example.run_inline", "process fork per session", "tmpfs directory"],
    "stub": ["format-command subprocess (answered in-process by isim.seams.stub_format)", "black absent / raising (injected)", "the user (scripted flags)"],
}


LOCALES = ["cp1252", "ascii", "latin-1", "cp1252", "iso8859-15"]


def with_locale(rng, fmt):
    """environment seam: the locale encoding of the session process (what text-mode pipes to a format-command use when no encoding is named)"""
    if fmt.get("kind") == "cmd" and rng.random() < 0.4:
        fmt = dict(fmt, locale=rng.choice(LOCALES))
    return fmt


def draw_fmt(rng):
    return with_locale(rng, _draw_fmt(rng))


def _draw_fmt(rng):
    r = rng.random()
    if r < 0.45:
        return {"kind": "black"}
    if r < 0.60:
        return {"kind": "absent"}
    if r < 0.70:
        return {"kind": "raises", "always": True}
    if r < 0.92:
        return {"kind": "cmd", "stub": "black", "mode": {"line_length": rng.choice([20, 40, 79, 88, 120]),
                                                        "magic_trailing_comma": rng.random() < 0.7,
                                                        "string_normalization": rng.random() < 0.7}}
    return {"kind": "cmd", "stub": "identity"}


def fmt_tag(fmt):
    if fmt["kind"] == "cmd":
        return "cmd:" + fmt.get("stub", "black") + ("@" + fmt["locale"] if fmt.get("locale") else "")
    return fmt["kind"]


def generate(seed, tier="quick"):
    rng = sub(seed, "program")
    driver = "plugin" if sub(seed, "driver").random() < 0.12 else "inline"
    prof = V.draw_profile(sub(seed, "profile"))
    if driver == "plugin":
        if rng.random() < 0.5 and "norepr" not in prof.special:
            prof.special.append("norepr")
    elif rng.random() < 0.7:
        prof.special = [s for s in prof.special if s != "norepr"]
    elif "norepr" not in prof.special:
        prof.special.append("norepr")
    if sub(seed, "flag0").random() < 0.15:
        prof.special.append("flag0")
    prog = W.gen_program(rng, prof, {"prev": ["none"], "n_sites": (1, 5), "n_tests": (1, 3)})
    erng = sub(seed, "externals")
    if driver == "plugin" and erng.random() < 0.6:
        # outsourced externals (persisted by the real plugin; the read-back loads them from the storage directory)
        from . import c13

        f = prog["files"][0]
        for k in range(erng.randint(1, 2)):
            sid = f"x{k}"
            f["sites"][sid] = {"op": erng.choice(["eq", "eq", "in"]), "place": erng.choice(["direct", "direct", "module"]), "arg": None, "prev": None}
            erng.choice(f["tests"])["events"].append({"t": "cmp", "eid": f"ex{k}", "site": sid, "vals": [c13.wrap(erng, c13.ext_value(erng))], "style": erng.choice(["assert", "rec"])})
    mrng = sub(seed, "mutation")
    if mrng.random() < 0.2:
        # the observed object is mutated after the comparison (the read-back compares before it mutates, too)
        W.add_mutation_test(mrng, prog["files"][0], style=mrng.choice(["rec", "assert"]))
    krng = sub(seed, "kwonly")
    if krng.random() < 0.1:
        # a keyword-only dataclass whose required field follows optional ones (which hold their defaults, or not)
        f = prog["files"][0]
        fields = [["n", ["str", krng.choice(["build", "x", ""])]]]
        if krng.random() < 0.4:
            fields.insert(0, ["r", ["int", krng.choice([3, 5])]])
        if krng.random() < 0.3:
            fields.insert(len(fields) - 1, ["t", ["list", [["int", 1]] if krng.random() < 0.5 else []]])
        val = ["dc", "KW", fields]
        if krng.random() < 0.3:
            val = ["list", [val, ["int", 0]]]
        f["sites"]["kw1"] = {"op": krng.choice(["eq", "eq", "in"]), "place": krng.choice(["direct", "func"]), "arg": None, "prev": None}
        krng.choice(f["tests"])["events"].append({"t": "cmp", "eid": "ekw1", "site": "kw1", "vals": [val], "style": krng.choice(["assert", "rec"])})
    orng = sub(seed, "odd-constructors")
    if orng.random() < 0.15:
        # constructor shapes at the edge of the supported types: an attrs class with a private attribute (its __init__ argument has another
        # name), a dataclass field that is no constructor argument, IntFlag values with bits that have no name, complex numbers with an infinite part, an object whose repr is a statement (`n=3`) rather than an expression
        f = prog["files"][0]
        n = orng.randint(0, 15)
        val = orng.choice([["raw", f"ATP(x={orng.randint(0, 3)})"], ["raw", f"ATP(x=[1], z={orng.randint(0, 2)})"], ["raw", f"DCI(x={orng.randint(0, 3)})"],
                           ["raw", f"IPerm({n})"], ["raw", f"[IPerm({n}), IPerm({orng.randint(0, 3)})]"], ["raw", 'complex("inf")'], ["raw", '[complex("-inf"), 1.5]'],
                           ["raw", 'complex(1, float("inf"))'], ["raw", f"NoCodeStmt({n})"], ["raw", f"[NoCodeStmt({n}), 1]"], ["raw", f'{{"k": ATP(x=DCI(x=1), z=IPerm({n}))}}']])
        f["sites"]["oc1"] = {"op": orng.choice(["eq", "eq", "in", "item"]), "place": orng.choice(["direct", "func"]), "arg": None, "prev": None}
        e = {"t": "cmp", "eid": "eoc1", "site": "oc1", "vals": [val], "style": orng.choice(["assert", "rec"])}
        if f["sites"]["oc1"]["op"] == "item":
            e["key"], e["cop"] = ["str", "k"], "eq"
        orng.choice(f["tests"])["events"].append(e)
    nrng_ = sub(seed, "nested-imports")
    if nrng_.random() < 0.15:
        # ... and a value in that file needs one of these names (an object whose repr is not code, created or inserted into an existing list)
        W.add_nested_tool_imports(prog["files"][0], nrng_)
        f_ = prog["files"][0]
        f_["sites"]["ni1"] = {"op": "eq", "place": "direct", "arg": nrng_.choice([None, "[1]"]) if "c01" == "c02" else None, "prev": None}
        nrng_.choice(f_["tests"])["events"].append({"t": "cmp", "eid": "eni1", "site": "ni1", "vals": [["list", [["int", 1], ["norepr", nrng_.randint(1, 5)]]]], "style": nrng_.choice(["assert", "rec"])})
    wrng = sub(seed, "twin")
    if wrng.random() < 0.1:
        # a second module with the same text layout (same helper functions on the same lines): call sites of different files stay apart
        W.add_twin_file(prog, wrng, vary=wrng.random() < 0.6)
    W.sprinkle_uni(prog, sub(seed, "uni"), 0.05)
    fmt = draw_fmt(sub(seed, "fmt"))
    wrng2 = sub(seed, "crlf")
    if wrng2.random() < 0.08:
        # a project with windows line ends whose format-command writes CRLF as well: multi-line string values still read back with "\n"
        for f in prog["files"]:
            f["header"] = dict(f.get("header") or {}, eol="crlf")
            f["header"].pop("tabs", None)
        if wrng2.random() < 0.7:
            fmt = {"kind": "cmd", "stub": "black-crlf", "mode": {"line_length": wrng2.choice([40, 88])}}
        f = prog["files"][0]
        f["sites"]["ml1"] = {"op": wrng2.choice(["eq", "eq", "in"]), "place": "direct", "arg": None, "prev": None}
        wrng2.choice(f["tests"])["events"].append({"t": "cmp", "eid": "eml1", "site": "ml1", "vals": [wrng2.choice([["str", "first\nsecond\nthird"], ["list", [["str", "a\nb\n"], ["int", 1]]],
                                                                                                                  ["dict", [[["str", "k"], ["str", "x\n\ny"]]]]])], "style": wrng2.choice(["assert", "rec"])})
    return {"program": prog, "driver": driver, "fmt": fmt}


def site_values(prog, sid):
    vals = []
    for f in prog["files"]:
        for t in f["tests"]:
            for e in t["events"]:
                if e.get("t") == "cmp" and e["site"] == sid:
                    vals.extend(e.get("vals", []))
                    if e.get("key") is not None:
                        vals.append(e["key"])
    return vals


def _ws(s):
    return "".join(s.split())


def classify_readback(site, events, got_text):
    """narrow root-cause signature for a read-back failure on one site"""
    vals = [v for e in events for v in e.get("vals", [])]
    # a str that is itself a formatted fragment: black treats the lone literal as a module docstring
    roots = []
    if site["op"] == "eq":
        roots = vals
    elif site["op"] == "item":
        roots = [v for e in events if e.get("cop", "eq") == "eq" for v in e["vals"]] + [e["key"] for e in events if e.get("key")]
    elif site["op"] in ("le", "ge"):
        roots = vals
    for v in roots:
        if v[0] == "str" and got_text is not None:
            return "root-str-normalised-as-docstring"
    return "mismatch:" + site["op"]


def strict_equal(a, b):
    """== plus identical types for str / bytes leaves, recursively through the builtin containers"""
    if isinstance(a, (str, bytes)) or isinstance(b, (str, bytes)):
        return type(a) is type(b) and a == b
    if isinstance(a, (list, tuple)) and isinstance(b, (list, tuple)):
        return type(a) is type(b) and len(a) == len(b) and all(strict_equal(x, y) for x, y in zip(a, b))
    if isinstance(a, dict) and isinstance(b, dict):
        if len(a) != len(b):
            return False
        for (k1, v1), (k2, v2) in zip(sorted(a.items(), key=lambda kv: repr(kv[0])), sorted(b.items(), key=lambda kv: repr(kv[0]))):
            if not strict_equal(k1, k2) or not strict_equal(v1, v2):
                return False
        return True
    try:
        return bool(a == b)
    except Exception:
        return False


# exception types that no generated program raises on its own (the vocabulary raises ValueError / TypeError, misuse gives UsageError)
LIBRARY_EXCEPTIONS = {"RuntimeError", "AttributeError", "NameError", "StopIteration", "RecursionError", "UnboundLocalError", "NotImplementedError"}  # (KeyError / IndexError: the mutation statements of a program may raise them)


def execute(case, ctx):
    prog, driver, fmt = case["program"], case["driver"], case["fmt"]
    files, orders = P.render(prog, drivers.simlib_text())
    if driver == "plugin":
        files["pyproject.toml"] = sim.pyproject_for(fmt)
    new, res = sim.run_session(ctx, driver, files, {"flags": case.get("flags", "create"), "fmt": fmt})
    log = [["session", driver, fmt_tag(fmt), res.get("status"), res.get("rc"), res.get("categories"), sorted(map(str, res.get("rec", [])))]]
    out = {"violations": [], "discards": {}, "abstract": [], "log": log}
    if not sim.session_completed(driver, res):
        out["violations"].append(sim.completion_violation(driver, res, f"flags={case.get('flags', 'create')} fmt={fmt_tag(fmt)}"))
        return out
    sidx = W.site_index(prog)
    events_by_site = {}
    for fn, tn, e in W.events_in_order(prog):
        if e.get("t") == "cmp":
            events_by_site.setdefault(e["site"], []).append(e)
    srec = sim.rec_by_eid(res.get("rec", []))
    exempt = {sid for sid, (f, s) in sidx.items() if s.get("unmanaged")}
    for sid, evs in events_by_site.items():
        for e in evs:
            for a in srec.get(e["eid"], []):
                if isinstance(a, str) and a.startswith("E:"):
                    if a[2:] in LIBRARY_EXCEPTIONS:
                        # nothing in the generated programs raises these: the comparison died inside the library, in a session that
                        # approves create / fix - the snapshot was reached and is not repaired
                        out["violations"].append({"clause": "comparison-completes", "sig": f"comparison-raised-{a[2:]}-in-approving-session:{sidx[sid][1]['op']}",
                                                  "detail": f"site {sid} ({sidx[sid][1]['op']}, {sidx[sid][1]['place']}) driver={driver} fmt={fmt_tag(fmt)}: event {e['eid']} answered {a}\n"
                                                            f"  previous: {sidx[sid][1].get('arg')!r:.300}\n  observed: {', '.join(V.expr(v) for v in e.get('vals', [])[:2])[:400]}"})
                        continue
                    exempt.add(sid)
                    ctx.count("site_exempt_comparison_raised_" + a[2:])
    if driver == "plugin":
        for nodeid, t in res.get("tests", {}).items():
            if t.get("call") == "failed":
                # an assert-style comparison raised (usage error): find sites of that test
                tn = nodeid.split("::")[-1]
                for f in prog["files"]:
                    for tt in f["tests"]:
                        if tt["name"] == tn:
                            exempt.update(e["site"] for e in tt["events"] if e.get("t") == "cmp")
    if driver == "inline" and res.get("raises") and str(res["raises"]).split(":")[0].strip() in LIBRARY_EXCEPTIONS:
        out["violations"].append({"clause": "comparison-completes", "sig": f"test-died-with-{str(res['raises']).split(':')[0].strip()}-in-approving-session",
                                  "detail": f"driver=inline fmt={fmt_tag(fmt)} flags={case.get('flags', 'create')}: {str(res['raises'])[:600]}"})
        return out
    elif res.get("raises") and not case.get("allow_raises"):
        # run_inline: some test raised unexpectedly (usage error); later sites of that test were not reached
        out["discards"]["test-raised-in-inline-session"] = 1
        return out
    # reached = the first session recorded at least one comparison of the site
    reached = {sid for sid, evs in events_by_site.items() if any(srec.get(e["eid"]) for e in evs)}
    for sid, (f, s) in sidx.items():
        if s["place"] == "module" and s["arg"] is None and sid not in reached:
            # an empty module-level snapshot that no executed comparison reached cannot be created:
            # the module does not import when disabled, nothing of this file can be judged
            out["discards"]["empty-module-level-site-never-compared"] = 1
            return out
    text_new = sim.to_text({k: v for k, v in new.items() if k.endswith(".py")})
    # ---- clause: the rewritten file is valid python and every created site holds an expression
    try:
        smap = sim.site_map(text_new, orders)
    except SyntaxError as ex:
        allv = [n for f in prog["files"] for sid in f["sites"] for v in site_values(prog, sid) for n in V.walk(v)]
        sig = "flag-zero-empty-repr" if any(n[0] == "flag" and not n[2] for n in allv) else "unparsable-file"
        out["violations"].append({"clause": "parse", "sig": sig, "detail": f"rewritten file does not parse: {ex}\n" + "\n".join(
            f"--- {k}\n{v}" for k, v in text_new.items() if k.startswith("test_"))[:1500]})
        return out
    ctx.count("clauses_checked")
    for (fn, sid), call in smap.items():
        if sid in exempt or sid not in reached:
            continue
        site = sidx[sid][1]
        ctx.count("sites_created")
        if call.arg_text is None:
            out["violations"].append({"clause": "created", "sig": "no-argument-written:" + site["op"],
                                      "detail": f"site {sid} ({site['op']}, {site['place']}) was reached with create approved but has no argument afterwards"})
            continue
        for v in site_values(prog, sid)[:2]:
            out["abstract"].append(f"{site['op']}|{site['place']}|{V.type_path(v, 2)}|{fmt_tag(fmt)}|{driver}")
        if any(n[0] in ("norepr", "nbox") for v in site_values(prog, sid) for n in V.walk(v)):
            ctx.count("probe_hasrepr_site")
            if not any(isinstance(n, ast.Call) and isinstance(n.func, ast.Name) and n.func.id == "HasRepr" for n in ast.walk(call.node)):
                out["violations"].append({"clause": "hasrepr", "sig": "norepr-not-recorded-through-HasRepr",
                                          "detail": f"site {sid}: {call.arg_text!r}"})
    # ---- clause: read-back with inline-snapshot disabled
    rb = sim.readback(ctx, new)
    log.append(["readback", sorted(rb["tests"].items()), sorted(map(str, rb["rec"])), sorted(rb["import_exc"].items())])
    rrec = sim.rec_by_eid(rb["rec"])
    seen = set()

    def fail(sid, why):
        site = sidx[sid][1]
        call = smap.get((sidx[sid][0]["name"], sid))
        sig = classify_readback(site, events_by_site.get(sid, []), call.arg_text if call else None)
        if (sid, sig) in seen:
            return
        seen.add((sid, sig))
        vals = ", ".join(V.expr(v) for v in site_values(prog, sid)[:3])
        out["violations"].append({"clause": "readback", "sig": sig,
                                  "detail": f"site {sid} op={site['op']} place={site['place']} fmt={fmt_tag(fmt)} driver={driver}: {why}\n"
                                            f"  observed: {vals[:400]}\n  written:  {(call.arg_text if call else None)!r:.400}"})

    if rb["import_exc"]:
        for fn, msg in rb["import_exc"].items():
            # attribute to module-level sites of that file
            f = [f for f in prog["files"] if f["name"] == fn][0]
            cands = [sid for sid, s in f["sites"].items() if s["place"] == "module" and sid not in exempt and sid in events_by_site]
            if msg.startswith("SyntaxError"):
                # the rewritten file as a whole is not a valid module (nothing to attribute to one site)
                out["violations"].append({"clause": "readback", "sig": "module-does-not-compile-after-rewrite",
                                          "detail": f"{fn} fmt={fmt_tag(fmt)} driver={driver}: {msg}\n{text_new.get(fn, '')[:900]}"})
                continue
            for sid in cands or [next(iter(f["sites"]))]:
                fail(sid, f"module does not import with inline-snapshot disabled: {msg}")
        return out
    aborted = set()
    for fn, tn, e in W.events_in_order(prog):
        if e.get("t") != "cmp" or (fn, tn) in aborted:
            continue
        sid = e["site"]
        want = srec.get(e["eid"], [])
        got = rrec.get(e["eid"], [])
        n_expected = len(e["vals"]) if "vals" in e else 1
        if e.get("style", "assert") == "assert":
            # ok(eid) is recorded after each passing assert; a failing assert ends the test in the read-back,
            # so later events of that test were not reached there and are not judged
            if len(got) < n_expected:
                aborted.add((fn, tn))
                if len(want) >= n_expected and sid not in exempt:
                    fail(sid, f"assert of event {e['eid']} failed in the read-back ({len(got)}/{n_expected} passed)")
        elif sid not in exempt:
            for i in range(min(len(want), n_expected)):
                g = got[i] if i < len(got) else "absent"
                if want[i] is True and g is not True:
                    fail(sid, f"comparison {e['eid']}[{i}] answered {g!r} in the read-back")
    ctx.count("readbacks")
    # ---- optional (C12): the literal found on disk evaluates to exactly the observed value, type included
    if case.get("strict"):
        for (fn, sid), call in smap.items():
            site = sidx[sid][1]
            if site["op"] != "eq" or sid in exempt or sid not in reached or call.arg_text is None:
                continue
            v = events_by_site[sid][0]["vals"][0]
            try:
                got = P.eval_arg(call.arg_text)
            except Exception as ex:
                fail(sid, f"argument does not evaluate: {type(ex).__name__}: {ex}")
                continue
            ctx.count("literals_checked")
            if not strict_equal(got, V.pyval(v)):
                fail(sid, f"the written literal evaluates to {got!r:.200}, not to the observed value")
    # ---- optional (C12/C08): a following session with `update` approved keeps the value
    if case.get("second"):
        new2, res2 = sim.run_session(ctx, driver, new, {"flags": case["second"], "fmt": fmt})
        if sim.session_completed(driver, res2):
            try:
                smap2 = sim.site_map(sim.to_text({k: v for k, v in new2.items() if k.endswith(".py")}), orders)
            except SyntaxError as ex:
                out["violations"].append({"clause": "parse", "sig": "unparsable-file-after-second-session", "detail": str(ex)})
                return out
            for (fn, sid), call in smap2.items():
                site = sidx[sid][1]
                if site["op"] != "eq" or sid in exempt or sid not in reached or call.arg_text is None:
                    continue
                try:
                    if not strict_equal(P.eval_arg(call.arg_text), V.pyval(events_by_site[sid][0]["vals"][0])):
                        fail(sid, f"after a second session ({case['second']}) the literal evaluates to another value: {call.arg_text!r:.200}")
                except Exception as ex:
                    fail(sid, f"after a second session the argument does not evaluate: {ex}")
    if smap:
        out["sample"] = {"driver": driver, "fmt": fmt_tag(fmt), "file": next(iter(text_new.values()))[:600]}
    return out


def shrink(case):
    for p in W.shrink_program(case["program"]):
        yield dict(case, program=p)
    if case["fmt"]["kind"] != "black":
        yield dict(case, fmt={"kind": "black"})
    if case["driver"] == "plugin":
        yield dict(case, driver="inline")
