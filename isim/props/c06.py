"""C06 - without approval, snapshot(x) behaves like x.

Two sessions on the same durable state: 'active, no category, no review' and 'disabled', the latter
reached through every documented route (flag, each CI variable, xdist, xfail mark - environment
seams owned by the simulator).  Operation by operation: the recorded answers of the active session
= the recorded answers of the disabled session = the reference model's plain-Python answer;
per-test pass/fail equal; in disabled sessions snapshot(v) is v; a second operation on one
snapshot raises TypeError.  Weak leverage: only the route to 'disabled' is simulator-owned.
"""
from .. import drivers, sim
from ..gen import program as P
from ..gen import values as V
from ..gen import workload as W
from ..model import MISSING, SessionModel
from ..prng import sub

ID = "C06"
PROBES = ['probe_false_answer_on_plain_value', 'probe_identity_when_disabled', 'probe_second_operation', 'probe_identity_after_xfail_test', 'comparisons_judged']  # reach probes: counters that must be non-zero in a run (a zero is printed and recorded)
LEVEL = "exploration"
BUDGET = {"quick": 500, "thorough": 20000}
WALL = {"quick": 300, "thorough": 3400}
TECHNIQUE = "deterministic simulation: the same durable state run as an active no-approval session and as a disabled session reached through each environment seam; recorded answers compared with each other and with a plain-Python reference model"
LEVEL_TEXT = ("seeded search over programs (stored values incl. Is() and inner snapshots; repeated, reflected, nested comparisons over all operations) x "
              "routes to the disabled state (flag, 12 CI variables, xdist, xfail) x executors; differential oracle operation by operation; sampling, not proof")
LEVEL_NOTE = ("trusted: reference model's plain answers; scope as stated in the property: stable arguments, totally ordered bounds, comparisons that do not "
              "raise on the plain value (raising ones are discarded and counted)")
RULE = ("one run = program (1-5 sites with stored values, 1-4 comparisons each, shared sites compared repeatedly in several tests) x route; sessions: active "
        "without flags (inline and/or plugin) and disabled; distinct = (operation, value type-path, answer pattern, route); non-trivial = at least one "
        "comparison answering False on the plain value")
RULE += " Dimensions added while testing against seeded changes: a snapshot of the flag-less session handed to Example.run_inline whose inner run approves categories; a False comparison evaluated at import time before a first test that holds; twin files; single xfail tests; Is() in a dict whose sub-snapshot is only fetched first and compared on later evaluations."
ASSUMPTIONS = ["sites without a stored value are outside the statement (missing value = AssertionError when disabled)", "xdist route is sampled (1.8 s per session)"]
REAL_VS_STUB = {
    "real": ["inline_snapshot library / plugin from /repo/src", "pytest", "os.environ (CI variables)", "xdist workers (sample)", "Example.run_inline"],
    "stub": ["the user"],
}
ROUTES = ["flag", "flag", "ci", "ci", "xfail", "xdist"]


def generate(seed, tier="quick"):
    rng = sub(seed, "program")
    prof = V.draw_profile(sub(seed, "profile"), max_depth=2)
    prof.special = [s for s in prof.special if s not in ("norepr",)]
    prog = W.gen_program(rng, prof, {"prev": ["same", "tight", "other", "wrong", "slack", "subset", "superset", "edit"], "n_sites": (1, 5), "n_tests": (1, 3),
                                     "styles": ["rec", "rec", "assert"], "places": ["direct", "func", "func", "module", "lam", "helper_arg"], "max_obs": 4, "hand": 0.4})
    xr = sub(seed, "extra")
    n = 0
    for f in prog["files"]:
        # later comparisons of a shared bound site arrive in an order chosen by the scheduler: out-of-bound first, then in between
        for sid, s in list(f["sites"].items()):
            if s["op"] in ("le", "ge") and s["place"] in ("func", "module", "lam") and s["prev"] is not None and s["prev"][0] == "int" and xr.random() < 0.7:
                b = s["prev"][1]
                seq = [b + 4, b + 2, b + 1, b, b - 3] if s["op"] == "le" else [b - 4, b - 2, b - 1, b, b + 3]
                xr.shuffle(seq)
                n += 1
                f["tests"].append({"name": f"test_seq{n}", "events": [{"t": "cmp", "eid": f"q{n}_{i}", "site": sid, "vals": [["int", v]], "style": "rec",
                                                                      "reflect": xr.random() < 0.3} for i, v in enumerate(seq)]})
        # Is() and inner snapshots inside the stored value
        for sid, s in f["sites"].items():
            if s["op"] == "eq" and s["prev"] is not None and s["prev"][0] in ("list", "tuple") and s["prev"][1] and xr.random() < 0.4:
                items = [V.expr(x) for x in s["prev"][1]]
                k = xr.randrange(len(items))
                items[k] = (xr.choice(["Is({})", "snapshot({})"])).format(items[k])
                o, c = ("[", "]") if s["prev"][0] == "list" else ("(", ",)" if len(items) == 1 else ")")
                s["arg"] = o + ", ".join(items) + c
                s["wrapped"] = True
        # Is() inside the values of a dict sub-snapshot that is evaluated repeatedly (loop)
        for sid, s in f["sites"].items():
            if s["op"] == "item" and s["prev"] is not None and s["prev"][1] and xr.random() < 0.5:
                parts = []
                wrapped = False
                for k, v in s["prev"][1]:
                    if v[0] in ("list", "tuple") and v[1] and not wrapped:
                        items = [V.expr(x) for x in v[1]]
                        j = xr.randrange(len(items))
                        items[j] = f"Is({items[j]})"
                        o, c = ("[", "]") if v[0] == "list" else ("(", ",)" if len(items) == 1 else ")")
                        parts.append(f"{V.expr(k)}: {o}{', '.join(items)}{c}")
                        wrapped = True
                    else:
                        parts.append(f"{V.expr(k)}: {V.expr(v)}")
                if wrapped:
                    s["arg"] = "{" + ", ".join(parts) + "}"
                    s["wrapped"] = True
                    for t in f["tests"]:
                        for e in t["events"]:
                            if e.get("site") == sid and e.get("t") == "cmp" and len(e.get("vals", [])) == 1:
                                e["vals"] = e["vals"] * 3
        # `x in snapshot(v)` where v is not written as a list display: other containers, or a list that is computed
        if xr.random() < 0.25:
            n += 1
            sid = f"inx{n}"
            arg, prev, members, others = xr.choice([
                ("(1, 2, 3)", ["tuple", [["int", 1], ["int", 2], ["int", 3]]], [1, 3], [7]),
                ("{1, 2, 3}", ["set", [["int", 1], ["int", 2], ["int", 3]]], [2], [0]),
                ('{"a": 1, "b": 2}', ["dict", [[["str", "a"], ["int", 1]], [["str", "b"], ["int", 2]]]], ["a"], ["z", 1]),
                ('"abcdef"', ["str", "abcdef"], ["cd", "a"], ["x"]),
                ("list(range(4))", ["list", [["int", i] for i in range(4)]], [0, 3], [4]),
                ("[0, 1] * 2", ["list", [["int", 0], ["int", 1], ["int", 0], ["int", 1]]], [1], [2]),
                ("[5] + [6]", ["list", [["int", 5], ["int", 6]]], [5, 6], [7]),
                ("frozenset({1, 2})", ["frozenset", [["int", 1], ["int", 2]]], [1], [3]),
            ])
            f["sites"][sid] = {"op": "in", "place": xr.choice(["direct", "func", "lam", "module"]), "arg": arg, "prev": prev, "wrapped": True}
            vals = [(["str", m] if isinstance(m, str) else ["int", m]) for m in members + (others if xr.random() < 0.5 else [])]
            xr.shuffle(vals)
            if f["sites"][sid]["place"] == "direct":
                evs = [{"t": "cmp", "eid": f"inx{n}_0", "site": sid, "vals": vals, "style": xr.choice(["rec", "assert"])}]
            else:
                evs = [{"t": "cmp", "eid": f"inx{n}_{i}", "site": sid, "vals": [v], "style": xr.choice(["rec", "assert"])} for i, v in enumerate(vals)]
            f["tests"].append({"name": f"test_inx{n}", "events": evs})
        # user-controlled parts inside constructor calls, equal to the default of their field, evaluated repeatedly
        if xr.random() < 0.3:
            n += 1
            sid = f"dcu{n}"
            arg, good, bad = xr.choice([
                ('DCD(x=Is(0), y="y")', ["dc", "DCD", [["x", ["int", 0]], ["y", ["str", "y"]]]], ["dc", "DCD", [["x", ["int", 1]]]]),
                ('DC(a=1, b=Is(None))', ["dc", "DC", [["a", ["int", 1]]]], ["dc", "DC", [["a", ["int", 2]]]]),
                ('AT(p=1, q=snapshot(3))', ["dc", "AT", [["p", ["int", 1]]]], ["dc", "AT", [["p", ["int", 1]], ["q", ["int", 4]]]]),
                ('PM(m=0, n=Is(1))', ["dc", "PM", [["m", ["int", 0]]]], ["dc", "PM", [["m", ["int", 5]]]]),
                ('NTD(f=1, g=Is(5))', ["dc", "NTD", [["f", ["int", 1]]]], ["dc", "NTD", [["f", ["int", 1]], ["g", ["int", 6]]]]),
                # the argument is a module-level constant, not a constructor call written in place
                ('KDC', ["dc", "DC", [["a", ["int", 1]]]], ["dc", "DC", [["a", ["int", 2]]]]),
                ('KNT', ["dc", "NT", [["f", ["int", 1]], ["g", ["int", 2]]]], ["dc", "NT", [["f", ["int", 1]], ["g", ["int", 3]]]]),
            ])
            if arg in ("KDC", "KNT"):
                f["header"] = dict(f.get("header") or {})
                f["header"]["pre"] = list(f["header"].get("pre", [])) + ["KDC = DC(a=1)", "KNT = NT(f=1, g=2)"]
            f["sites"][sid] = {"op": "eq", "place": xr.choice(["func", "lam"]), "arg": arg, "prev": good, "wrapped": True}
            seq = [good, bad, good]
            xr.shuffle(seq)
            f["tests"].append({"name": f"test_dcu{n}", "events": [{"t": "cmp", "eid": f"dcu{n}_{i}", "site": sid, "vals": [v], "style": "rec", "reflect": xr.random() < 0.3} for i, v in enumerate(seq)]})
        # a snapshot of this (flag-less) session handed to the public testing helper, whose inner run approves categories of its own:
        # the helper's comparison with the outer snapshot must answer like the plain value does
        if xr.random() < 0.2:
            n += 1
            sid = f"exq{n}"
            exflags = xr.choice(["create", "create,fix", "create,update", "create,fix,trim,update"])
            after = "from inline_snapshot import snapshot\n\ndef test_a():\n    assert 5 == snapshot(5)\n"
            right = ["dict", [[["str", "test_something.py"], ["str", after]]]]
            arg = xr.choice([V.expr(right), '{"test_something.py": "something else"}', "{}", V.expr(right), '{"other.py": ""}'])
            f["sites"][sid] = {"op": "eq", "place": "func", "arg": arg, "prev": None, "wrapped": True, "example": True}
            f["tests"].append({"name": f"test_exq{n}", "events": [
                {"t": "stmt", "text": f"rec('exq{n}', lambda: check_example({exflags!r}, get_{sid}()))", "expect": V.expr(right)}]})
        # a second operation on one snapshot
        if xr.random() < 0.3:
            n += 1
            sid = f"w{n}"
            f["sites"][sid] = {"op": "eq", "place": "func", "arg": "5", "prev": ["int", 5], "second_op": True}
            f["tests"].append({"name": f"test_two_ops{n}", "events": [
                {"t": "cmp", "eid": f"w{n}a", "site": sid, "vals": [["int", 5]], "style": "rec"},
                {"t": "stmt", "text": f"rec('w{n}b', lambda: 4 <= get_{sid}())"},
                {"t": "stmt", "text": f"rec('w{n}c', lambda: 5 in get_{sid}())"}]})
        # identity of the returned object when disabled
        if xr.random() < 0.5:
            n += 1
            f["tests"].append({"name": f"test_ident{n}", "events": [
                {"t": "stmt", "text": f"_o{n} = [1, {{'k': 2}}]"},
                {"t": "stmt", "text": f"rec('id{n}', lambda: snapshot_alias(_o{n}) is _o{n})"}]})
    xf = sub(seed, "xfailmix")
    if xf.random() < 0.45:
        # one xfail-marked test in the middle of the session (it runs with a private inactive state)
        f = prog["files"][0]
        cands = [t for t in f["tests"] if not any(e.get("t") == "stmt" for e in t["events"])]
        if cands:
            xf.choice(cands)["xfail"] = True
        # the identity probe runs after it
        f["tests"].append({"name": "test_zz_ident_after_xfail", "events": [
            {"t": "stmt", "text": "_oz = [1, {'k': 2}]"},
            {"t": "stmt", "text": "rec('idz', lambda: snapshot_alias(_oz) is _oz)"},
            {"t": "stmt", "text": "rec('idz2', lambda: len(snapshot_alias([1, 2])) == 2)"}]})
    irng = sub(seed, "is-subsnapshot")
    if irng.random() < 0.2:
        # Is() inside a dict whose sub-snapshot is first only fetched (not compared) and compared on later evaluations of the same call,
        # the Is() value changing between the evaluations: every comparison sees the current value, like the plain dict would
        f = prog["files"][0]
        f["sites"]["isq"] = {"op": "item", "place": "func", "arg": '{"id": Is(G["v"]), "name": "x"}', "prev": None, "wrapped": True}
        a, b, c = irng.sample(range(1, 9), 3)
        f["tests"].append({"name": "test_is_subsnapshot", "events": [
            {"t": "stmt", "text": f"set_g({a})"},
            {"t": "stmt", "text": "rec('isq_a', lambda: get_isq()['id'] is not None)"},
            {"t": "stmt", "text": f"set_g({b})"},
            {"t": "stmt", "text": f"rec('isq_b', lambda: {b} == get_isq()['id'])", "expect_true": "isq_b"},
            {"t": "stmt", "text": f"set_g({c})"},
            {"t": "stmt", "text": f"rec('isq_c', lambda: get_isq()['id'] == {c})", "expect_true": "isq_c"}]})
    orng = sub(seed, "outside")
    outside = orng.random() < 0.3
    if outside:
        # a comparison that is legitimately False and not asserted, evaluated while the module is imported (outside any test); the first test
        # of the module holds: it passes when disabled, so it passes in the active session too, whatever was compared before it started
        f = prog["files"][0]
        f["sites"]["mo1"] = {"op": orng.choice(["eq", "le", "in"]), "place": "module", "arg": "[5]" if False else "5", "prev": ["int", 5]}
        if f["sites"]["mo1"]["op"] == "in":
            f["sites"]["mo1"].update(arg="[5]", prev=["list", [["int", 5]]])
        f.setdefault("module_events", []).append({"t": "cmp", "eid": "emo1", "site": "mo1", "vals": [["int", 7]], "style": "rec"})
        f["sites"]["vi1"] = {"op": "eq", "place": "direct", "arg": "1", "prev": ["int", 1]}
        f["tests"].insert(0, {"name": "test_00_first_after_import", "events": [{"t": "cmp", "eid": "evi1", "site": "vi1", "vals": [["int", 1]], "style": "assert"}]})
    route = sub(seed, "route").choice(ROUTES)
    wrng = sub(seed, "twin")
    if wrng.random() < 0.12 and len(prog["files"]) == 1:
        # a second module with the same text layout whose names resolve to other data
        tw = W.add_twin_file(prog, wrng, vary=True)
        # the same helper text in both modules reads a module-level name that has another value in each of them
        for f, suffix, kv in ((prog["files"][0], "", 3), (tw, "w", 4)):
            f["header"] = dict(f.get("header") or {})
            f["header"]["pre"] = list(f["header"].get("pre", [])) + [f"K = {kv}"]
            f["sites"]["kq" + suffix] = {"op": "eq", "place": "func", "arg": "[K, 1]", "prev": ["list", [["int", kv], ["int", 1]]], "name": "kq", "wrapped": True}
            f["tests"].append({"name": "test_kq", "events": [{"t": "cmp", "eid": "ekq" + suffix, "site": "kq" + suffix, "vals": [["list", [["int", kv], ["int", 1]]]], "style": "rec"},
                                                             {"t": "cmp", "eid": "ekr" + suffix, "site": "kq" + suffix, "vals": [["list", [["int", 9]]]], "style": "rec"}]})
    return {"program": prog, "route": route, "ci_var": sub(seed, "ci").choice(drivers.CI_VARS), "plugin_active": sub(seed, "pa").random() < (0.7 if outside else 0.3)}


def execute(case, ctx):
    prog, route = case["program"], case["route"]
    out = {"violations": [], "discards": {}, "abstract": []}

    def viol(clause, sig, detail):
        if not any(v["clause"] == clause and v["sig"] == sig for v in out["violations"]):
            out["violations"].append({"clause": clause, "sig": sig, "detail": detail})

    files, orders = P.render(prog, drivers.simlib_text())
    try:
        before = sim.site_map(files, orders)
    except SyntaxError:
        out["discards"]["generated-file-unparsable"] = 1
        return out
    sidx = W.site_index(prog)
    ops = {sid: s["op"] for sid, (f, s) in sidx.items()}
    src = {}
    for (fn, sid), call in before.items():
        try:
            src[sid] = MISSING if call.arg_text is None else P.eval_arg(call.arg_text)
        except Exception:
            site = sidx[sid][1]
            if (site.get("name") == "kq" or site.get("arg") in ("KDC", "KNT")) and site.get("prev") is not None:
                src[sid] = V.pyval(site["prev"])  # the argument reads a module-level name of its own file: the program says what it evaluates to
                continue
            out["discards"]["stored-argument-does-not-evaluate"] = 1
            return out
    events = W.events_in_order(prog)
    m = SessionModel(src, ops, (), active=False).run([ev for ev in events if ev[2].get("t") != "stmt"], V.pyval)
    # ---- active session without approval
    adrv = "plugin" if case.get("plugin_active") else "inline"
    s0 = sim.to_bytes(files)
    a_new, a_res = sim.run_session(ctx, adrv, s0, {"flags": None})
    if a_res.get("status") != "ok":
        out["discards"]["active-session-died"] = 1
        return out
    if {k: v for k, v in a_new.items() if k.startswith("test_")} != {k: v for k, v in s0.items() if k.startswith("test_")}:
        viol("no-approval-no-change", "files-changed-without-flags", f"driver={adrv}")
    # ---- disabled session through the chosen route
    spec = {"flags": None}
    dfiles = dict(s0)
    if route == "flag":
        spec = {"flags": "disable"}
    elif route == "ci":
        spec = {"flags": None, "env": {case["ci_var"]: "1"}}
    elif route == "xdist":
        spec = {"flags": None, "xdist": 2}
    elif route == "xfail":
        for k in list(dfiles):
            if k.startswith("test_"):
                dfiles[k] = b"import pytest\npytestmark = pytest.mark.xfail\n" + dfiles[k]
    d_new, d_res = sim.run_session(ctx, "plugin", dfiles, spec, timeout=120)
    if d_res.get("status") != "ok":
        out["discards"]["disabled-session-died"] = 1
        return out
    ctx.count("clauses_checked")
    for nm, r in (("active", a_res), ("disabled:" + route, d_res)):
        if r.get("state_depth") not in (0, None) and route != "xdist":
            viol("state-restored", f"snapshot-state-stack-not-restored-after-session:{nm.split(':')[0]}",
                 f"after the {nm} session {r.get('state_depth')} snapshot state(s) were still pushed (a following in-process session / the embedding process reads the wrong state)")
    arec, drec = sim.rec_by_eid(a_res.get("rec", [])), sim.rec_by_eid(d_res.get("rec", []))
    if route == "xdist":
        drec = None  # the recording lives in the worker processes; only outcomes are compared
    nonfalse = False
    for fn, tn, e in events:
        if e.get("t") != "cmp":
            continue
        sid = e["site"]
        site = sidx[sid][1]
        if src[sid] is MISSING or site.get("second_op"):
            continue
        want = m.answers.get(e["eid"], [])
        if any(isinstance(a, str) for a in want):
            out["discards"]["plain-comparison-raises(out of scope)"] = out["discards"].get("plain-comparison-raises(out of scope)", 0) + 1
            continue
        got_a = arec.get(e["eid"], [])
        ctx.count("comparisons_judged", len(want))
        if False in want:
            nonfalse = True
        out["abstract"].append(f"{ops[sid]}|{V.type_path(e['vals'][0], 1) if e.get('vals') else 'var'}|{''.join('T' if a is True else 'F' for a in want)}|{route}")
        n = min(len(want), len(got_a)) if e.get("style", "assert") == "assert" else len(want)
        if list(got_a[:n]) != list(want[:n]) and not (e.get("style", "assert") == "assert"):
            viol("active-equals-plain", f"{ops[sid]}:active-answer-differs-from-plain-value",
                 f"event {e['eid']} site {sid} ({ops[sid]}, {site['place']}) stored {before[(fn, sid)].arg_text!r:.200}: plain python answers {want}, active session ({adrv}, no flags) answered {got_a}\n--- {fn}\n{files[fn][:1400]}")
        if drec is not None and e.get("style") == "rec" and route != "xfail":
            got_d = drec.get(e["eid"], [])
            if list(got_d) != list(want):
                viol("disabled-equals-plain", f"{ops[sid]}:disabled-answer-differs-from-plain-value:{route}",
                     f"event {e['eid']} site {sid}: plain {want}, disabled session answered {got_d} (route {route})")
    # ---- per-test pass/fail equal (active vs disabled), plugin-active only
    if adrv == "plugin" and route in ("flag", "ci", "xdist"):
        for nodeid, ta in a_res.get("tests", {}).items():
            td = d_res.get("tests", {}).get(nodeid)
            if td is None:
                continue
            tn = nodeid.split("::")[-1]
            t = [t for f in prog["files"] for t in f["tests"] if t["name"] == tn][0]
            if any(e.get("t") == "stmt" for e in t["events"]) or any(src.get(e.get("site")) is MISSING for e in t["events"] if e.get("t") == "cmp"):
                continue
            if any(e.get("style", "assert") != "assert" for e in t["events"] if e.get("t") == "cmp"):
                continue  # a recorded (non-asserting) False comparison fails the active test at teardown only: not comparable
            fa = "failed" in (ta.get("setup"), ta.get("call"), ta.get("teardown"))
            fd = "failed" in (td.get("setup"), td.get("call"), td.get("teardown"))
            ctx.count("test_outcomes_compared")
            if fa != fd:
                viol("pass-iff-pass", f"test-outcome-differs:active={'F' if fa else 'P'}:disabled={'F' if fd else 'P'}", f"{nodeid}: active {ta} disabled({route}) {td}\n{files[nodeid.split('::')[0]][:1200]}")
    # ---- identity when disabled, TypeError for a second operation
    for f in prog["files"]:
        for t in f["tests"]:
            for e in t["events"]:
                if e.get("t") == "stmt" and "rec('id" in e["text"] and drec is not None and route in ("flag", "ci"):
                    eid = e["text"].split("'")[1]
                    ctx.count("probe_identity_when_disabled")
                    if eid.startswith("idz"):
                        ctx.count("probe_identity_after_xfail_test")
                    if drec.get(eid) != [True]:
                        viol("identity-when-disabled", f"snapshot(v)-is-not-v:{route}", f"{eid}: {drec.get(eid)}")
                if e.get("t") == "stmt" and e.get("expect_true"):
                    eid = e["expect_true"]
                    ctx.count("probe_Is_in_sub_snapshot_compared_after_access_only_evaluation")
                    if arec.get(eid) != [True]:
                        viol("active-equals-plain", "item:active-answer-differs-from-plain-value:Is-in-sub-snapshot-after-access-only-evaluation",
                             f"{eid}: plain python answers [True], the active session ({adrv}, no flags) answered {arec.get(eid)}\n{files[f['name']][:1500]}")
                    if drec is not None and route in ("flag", "ci") and drec.get(eid) != [True]:
                        viol("disabled-equals-plain", f"item:disabled-answer-differs-from-plain-value:{route}:Is-in-sub-snapshot", f"{eid}: plain [True], disabled session answered {drec.get(eid)}")
                if e.get("t") == "stmt" and e["text"].startswith("rec('exq"):
                    eid = e["text"].split("'")[1]
                    ctx.count("probe_outer_snapshot_compared_by_run_inline")
                    want = [True] if src[eid] == P.eval_arg(e["expect"]) else ["E:AssertionError"]
                    if arec.get(eid) != want:
                        viol("active-equals-plain", "eq:active-answer-differs-from-plain-value:compared-inside-Example.run_inline",
                             f"{eid}: the files changed by the inner run compared with snapshot({sidx[eid][1]['arg']}) of the flag-less outer session ({adrv}): plain python answers {want}, "
                             f"the active session answered {arec.get(eid)}\n{files[f['name']][:1200]}")
                    if drec is not None and route in ("flag", "ci") and drec.get(eid) != want:
                        viol("disabled-equals-plain", f"eq:disabled-answer-differs-from-plain-value:{route}:compared-inside-Example.run_inline", f"{eid}: plain {want}, disabled session answered {drec.get(eid)}")
                if e.get("t") == "stmt" and e["text"].startswith("rec('w"):
                    eid = e["text"].split("'")[1]
                    ctx.count("probe_second_operation")
                    if arec.get(eid) != ["E:TypeError"]:
                        viol("second-operation", "second-operation-did-not-raise-TypeError", f"{eid}: active session answered {arec.get(eid)}\n{files[f['name']][:1000]}")
    if nonfalse:
        ctx.count("probe_false_answer_on_plain_value")
    out["sample"] = {"route": route, "active_driver": adrv, "file": files[prog["files"][0]["name"]][:700]}
    return out


def shrink(case):
    for p in W.shrink_program(case["program"]):
        yield dict(case, program=p)
    if case["route"] != "flag":
        yield dict(case, route="flag")
    if case.get("plugin_active"):
        yield dict(case, plugin_active=False)
