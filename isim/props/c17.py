"""C17 - what is recorded is the value at comparison time.

The simulator owns the interleaving of *mutation* events with *comparison* events on objects bound
to variables in the test body: after the only comparison, between repeated comparisons, on an inner
element, through an alias.  The reference model takes its deep copies at event time; the values
written must be the model's.  A value whose deep copy is not equal to it must be rejected with a
usage error and nothing recorded.
"""
from .. import drivers, sim
from ..gen import program as P
from ..gen import values as V
from ..gen import workload as W
from ..model import MISSING, SessionModel, value_equal
from ..prng import sub
from .c01 import draw_fmt, fmt_tag

ID = "C17"
PROBES = ['probe_mutation_after_comparison', 'probe_uncopyable_value', 'sites_judged']  # reach probes: counters that must be non-zero in a run (a zero is printed and recorded)
LEVEL = "exploration"
BUDGET = {"quick": 1500, "thorough": 60000}
WALL = {"quick": 240, "thorough": 3000}
TECHNIQUE = "deterministic simulation: seeded interleaving of mutation and comparison events, checked against an aliasing-free reference model"
LEVEL_TEXT = ("seeded search over schedules of bind / compare / mutate events on mutable objects (lists, dicts, sets, dataclasses, tuples and "
              "namedtuples with mutable members, nested) for all five operations; the model deep-copies at event time; sampling, not proof")
LEVEL_NOTE = "trusted: reference model and CPython's copy.deepcopy for the generated value families"
RULE = ("one run = 1-3 tests, each a schedule over 1-3 bound mutable objects: comparisons (==, <=, >=, in, [key]) against shared or direct sites "
        "interleaved with in-place mutations (append / clear / item assignment / attribute assignment / inner-element mutation / alias mutation), "
        "create (+fix with previous content) approved; distinct = (operation, kind of object, mutation, position of the mutation relative to "
        "the comparisons); non-trivial = at least one mutation after a comparison of the same object")
RULE += " Dimensions added while testing against seeded changes: BadList: a list subclass that overrides only __eq__ and whose deep copy is not equal to it; rejected sub-snapshot keys; an == snapshot with an Is() part evaluated three times while the compared list grows."
ASSUMPTIONS = ["a == site observed with two different values keeps the copy taken at its first comparison (the second value is the same object after a mutation)", "<= / >= use lists of ints (totally ordered)"]
REAL_VS_STUB = {
    "real": ["inline_snapshot library from /repo/src (clone = deepcopy + equality self-check)", "Example.run_inline (bulk)", "pytest + plugin (sample)"],
    "stub": ["the scheduler (writes mutation and comparison events into the test bodies)", "formatter states"],
}


def generate(seed, tier="quick"):
    rng = sub(seed, "program")
    prof = V.Profile(max_depth=1)
    sites, tests = {}, []
    sid_n = eid_n = var_n = 0
    nshared = rng.randint(0, 2)
    shared = []
    for _ in range(nshared):
        sid_n += 1
        op = rng.choice(["le", "ge", "in", "item", "eq"])
        sites[f"s{sid_n}"] = {"op": op, "place": rng.choice(["func", "module", "lam"]), "arg": None, "prev": None}
        shared.append(f"s{sid_n}")
    for ti in range(rng.randint(1, 3)):
        events = []
        vars_ = []
        for _ in range(rng.randint(1, 3)):
            var_n += 1
            val, muts = V.gen_mutable(rng, prof)
            vars_.append((f"x{var_n}", val, muts))
            events.append({"t": "bind", "var": f"x{var_n}", "val": val})
            if rng.random() < 0.25:
                events.append({"t": "stmt", "text": f"y{var_n} = x{var_n}", "alias": [f"y{var_n}", f"x{var_n}"]})
                vars_.append((f"y{var_n}", val, muts))
        for _ in range(rng.randint(2, 7)):
            var, val, muts = rng.choice(vars_)
            if rng.random() < 0.55:
                # a comparison
                orderable = val[0] == "list" and all(x[0] == "int" for x in val[1])
                use_shared = [s for s in shared if sites[s]["op"] in (("le", "ge", "in", "item", "eq") if orderable else ("in", "item", "eq"))]
                if use_shared and rng.random() < 0.6:
                    sid = rng.choice(use_shared)
                else:
                    sid_n += 1
                    sid = f"s{sid_n}"
                    op = rng.choice(["eq", "eq", "in", "item"] + (["le", "ge"] if orderable else []))
                    prev = None
                    arg = None
                    if rng.random() < 0.25 and op == "eq":
                        prev = V.gen_mutable(rng, prof)[0]
                        arg = V.expr(prev)
                    elif rng.random() < 0.4 and op == "in":
                        # the snapshot already holds the value that is compared (and mutated afterwards), plus one that is never tested
                        prev = ["list", [val, ["int", 12345]]]
                        arg = V.expr(prev)
                    elif rng.random() < 0.3 and op in ("le", "ge"):
                        prev = val
                        arg = V.expr(prev)
                    sites[sid] = {"op": op, "place": rng.choice(["direct", "direct", "helper_arg"]) if op != "item" else "direct", "arg": arg, "prev": prev}
                eid_n += 1
                e = {"t": "cmp", "eid": f"e{eid_n}", "site": sid, "var": var, "style": "rec"}
                if sites[sid]["op"] == "item":
                    e["key"] = ["str", rng.choice(["k1", "k2"])]
                    e["cop"] = rng.choice(["eq", "in"] + (["le"] if orderable else []))
                events.append(e)
            else:
                events.append({"t": "mutate", "var": var, "how": rng.choice(muts)})
        if rng.random() < 0.15:
            var_n += 1
            sid_n += 1
            eid_n += 1
            sites[f"s{sid_n}"] = {"op": rng.choice(["eq", "in", "le"]), "place": "direct", "arg": None, "prev": None}
            bc = [rng.choice(["badcopy", "badcopy", "badlist"]), rng.randint(0, 5)]
            # bare, or inside a container type that the session has (probably) already copied successfully
            bc = rng.choice([bc, ["list", [bc]], ["list", [["int", 1], bc]], ["tuple", [["int", 1], bc]], ["dict", [[["str", "k"], bc]]], ["dc", "DC", [["a", bc]]]])
            events.append({"t": "bind", "var": f"x{var_n}", "val": bc})
            events.append({"t": "cmp", "eid": f"e{eid_n}", "site": f"s{sid_n}", "var": f"x{var_n}", "style": "rec", "badcopy": True})
            if rng.random() < 0.4:
                # ... as one key of a dict sub-snapshot whose other key records normally: the rejected key must not be written at all
                sites[f"s{sid_n}"]["op"] = "item"
                sites[f"s{sid_n}"]["place"] = "func"  # two textual uses of one site
                events[-1].update(key=["str", "rejected"], cop="eq")
                eid_n += 1
                events.append({"t": "cmp", "eid": f"e{eid_n}", "site": f"s{sid_n}", "vals": [["int", 2]], "key": ["str", "kept"], "cop": "eq", "style": "rec"})
        tests.append({"name": f"test_t{ti}", "events": events})
    if rng.random() < 0.3:
        # a == snapshot that already holds the value, compared again by the same object after a mutation (and once more after another one)
        var_n += 1
        sid_n += 1
        val, muts = V.gen_mutable(rng, prof)
        prev = rng.choice([val, val, None, V.gen_mutable(rng, prof)[0]])
        sites[f"s{sid_n}"] = {"op": "eq", "place": rng.choice(["func", "module", "lam"]), "arg": None if prev is None else V.expr(prev), "prev": prev}
        events = [{"t": "bind", "var": f"x{var_n}", "val": val}]
        for k in range(rng.randint(2, 3)):
            eid_n += 1
            events.append({"t": "cmp", "eid": f"e{eid_n}", "site": f"s{sid_n}", "var": f"x{var_n}", "style": "rec"})
            events.append({"t": "mutate", "var": f"x{var_n}", "how": rng.choice(muts)})
        tests.append({"name": f"test_again{var_n}", "events": events})
    if rng.random() < 0.3:
        # a bound that is pushed further by the same object after a mutation, and the object is mutated again afterwards
        var_n += 1
        sid_n += 1
        op = rng.choice(["le", "ge"])
        n = rng.randint(2, 4)
        val = ["list", [["int", rng.randint(0, 9)] for _ in range(n)]]
        prev = rng.choice([None, None, val, ["list", [["int", 5]]]])
        sites[f"s{sid_n}"] = {"op": op, "place": rng.choice(["func", "module", "lam"]), "arg": None if prev is None else V.expr(prev), "prev": prev}
        events = [{"t": "bind", "var": f"x{var_n}", "val": val}]
        further = "{var}.append(%d)" if op == "le" else "{var}.pop()"
        for k in range(rng.randint(2, 3)):
            eid_n += 1
            events.append({"t": "cmp", "eid": f"e{eid_n}", "site": f"s{sid_n}", "var": f"x{var_n}", "style": "rec"})
            how = further % rng.randint(0, 9) if "%d" in further else further
            events.append({"t": "mutate", "var": f"x{var_n}", "how": how if k < n - 1 else "{var}.append(1)"})
        tests.append({"name": f"test_ladder{var_n}", "events": events})
    # direct sites may be used by one textual event only: guaranteed by construction (fresh site per comparison)
    prog = {"files": [{"name": "test_a.py", "header": W.gen_layout(rng), "sites": sites, "tests": tests}], "pyproject": None}
    qrng = sub(seed, "is-reeval")
    if qrng.random() < 0.15:
        # an == snapshot with an Is() part, evaluated three times (the Is() value changes each time) while the compared list keeps growing:
        # what gets written for the managed part is the copy taken at the FIRST comparison
        a, b, c = qrng.sample(range(1, 9), 3)
        sites["isr"] = {"op": "eq", "place": "func", "arg": '[Is(G["v"]), []]', "prev": None, "first": a}
        evs = [{"t": "stmt", "text": "seen = []"}]
        for i, k in enumerate((a, b, c)):
            evs += [{"t": "stmt", "text": f"set_g({k})"}, {"t": "stmt", "text": f"seen.append({k})"}, {"t": "stmt", "text": f"rec('isr_{i}', lambda: [{k}, seen] == get_isr())"}]
        tests.append({"name": "test_is_reeval", "events": evs})
    approved = rng.choice([["create", "fix"], ["create", "fix"], ["create"], ["create", "fix", "trim"], ["trim"], ["fix", "trim"]])
    driver = "plugin" if sub(seed, "driver").random() < 0.08 else "inline"
    return {"program": prog, "approved": approved, "driver": driver, "fmt": draw_fmt(sub(seed, "fmt"))}


def _prune(prog):
    """drop sites without events; drop shared sites' direct duplicates"""
    for f in prog["files"]:
        used = {e["site"] for t in f["tests"] for e in t["events"] if e.get("t") == "cmp"}
        f["sites"] = {k: v for k, v in f["sites"].items() if k in used or "first" in v}  # ("first": the site of the Is() re-evaluation test, driven by statements)


def execute(case, ctx):
    import copy

    prog = copy.deepcopy(case["program"])
    _prune(prog)
    driver, fmt, approved = case["driver"], case["fmt"], set(case["approved"])
    out = {"violations": [], "discards": {}, "abstract": []}

    def viol(clause, sig, detail):
        if not any(v["clause"] == clause and v["sig"] == sig for v in out["violations"]):
            out["violations"].append({"clause": clause, "sig": sig, "detail": detail})

    files, orders = P.render(prog, drivers.simlib_text())
    if driver == "plugin":
        files["pyproject.toml"] = sim.pyproject_for(fmt)
    flags = ",".join((["report"] if driver == "plugin" else []) + sorted(approved))
    new, res = sim.run_session(ctx, driver, files, {"flags": flags, "fmt": fmt})
    if not sim.session_completed(driver, res):
        out["violations"].append(sim.completion_violation(driver, res, f"approved={sorted(approved)}"))
        return out
    try:
        before = sim.site_map(files, orders)
        after = sim.site_map(sim.to_text(new), orders)
    except SyntaxError as ex:
        viol("parse", "unparsable-after-session", str(ex))
        return out
    sidx = W.site_index(prog)
    ops = {sid: s["op"] for sid, (f, s) in sidx.items()}
    src = {}
    for (fn, sid), call in before.items():
        try:
            src[sid] = MISSING if call.arg_text is None else P.eval_arg(call.arg_text)
        except Exception:
            src[sid] = MISSING
    for sid in ops:
        src.setdefault(sid, MISSING)
    all_events = W.events_in_order(prog)
    bad_sites = {e["site"] for fn, tn, e in all_events if e.get("badcopy")}
    events = []
    for fn, tn, e in all_events:
        if e.get("badcopy"):
            continue
        if e.get("t") == "stmt" and e.get("alias"):
            events.append((fn, tn, {"t": "mutate", "var": e["alias"][1], "how": e["alias"][0] + " = {var}"}))
            continue
        events.append((fn, tn, e))
    m = SessionModel(src, ops, approved).run(events, V.pyval)
    rec = sim.rec_by_eid(res.get("rec", []))
    ctx.count("clauses_checked")
    # ---- uncopyable values are rejected, nothing is recorded
    for fn, tn, e in all_events:
        if e.get("badcopy"):
            ctx.count("probe_uncopyable_value")
            a = rec.get(e["eid"])
            if a is None:
                continue  # not reached: an earlier statement of the test raised
            if a != ["E:UsageError"]:
                viol("uncopyable", "deepcopy-unequal-value-not-rejected", f"comparison of BadCopy answered {a} instead of raising UsageError")
            c = after.get(("test_a.py", e["site"]))
            if e.get("key") is not None:
                # sub-snapshot: the sibling key may be recorded, the rejected key must not appear
                if c is not None and c.arg_text is not None and "rejected" in c.arg_text:
                    viol("uncopyable", "rejected-sub-snapshot-key-written", f"site {e['site']} got {c.arg_text!r}")
            elif c is not None and c.arg_text is not None:
                viol("uncopyable", "deepcopy-unequal-value-recorded", f"site {e['site']} got {c.arg_text!r}")
    # ---- values written = the model's deep copies taken at event time
    mutated_after_cmp = False
    seen_cmp = set()
    for fn, tn, e in events:
        if e.get("t") == "cmp":
            seen_cmp.add(e.get("var"))
        elif e.get("t") == "mutate" and e["var"] in seen_cmp:
            mutated_after_cmp = True
    if mutated_after_cmp:
        ctx.count("probe_mutation_after_comparison")
    for (fn, sid), call in after.items():
        if sid in bad_sites:
            continue
        sm = m.sites[sid]
        if sm.kind is None:
            continue
        # `==` observed with two different values: here the second value is the same object after a mutation, and what gets written
        # must not be altered by it - the copy taken at the first comparison stands (the model's rule for ==)
        first_wins = sm.kind == "eq" and sm.contradictory and not sm.raised and not sm.mixed_ops
        if first_wins:
            ctx.count("probe_eq_site_compared_again_after_mutation")
        if (sm.exempt() and not first_wins) or any(isinstance(a, str) for f2, t2, e in events if e.get("site") == sid for a in (rec.get(e["eid"]) or [])):
            out["discards"]["site-exempt"] = out["discards"].get("site-exempt", 0) + 1
            continue
        try:
            want = sm.after(approved)
        except Exception:
            out["discards"]["model-could-not-aggregate"] = out["discards"].get("model-could-not-aggregate", 0) + 1
            continue
        try:
            got = MISSING if call.arg_text is None else P.eval_arg(call.arg_text)
        except Exception as ex:
            viol("value", "argument-does-not-evaluate", f"{sid}: {call.arg_text!r}: {ex}")
            continue
        ctx.count("sites_judged")
        hows = sorted({e["how"] for f2, t2, e in events if e.get("t") == "mutate"})[:2]
        out["abstract"].append(f"{sm.kind}|{sidx[sid][1]['place']}|{'|'.join(hows)}|{len(sm.obs)}")
        if not value_equal(sm.kind, got, want):
            viol("value-at-comparison-time", f"{sm.kind}:written-value-differs-from-value-at-comparison-time",
                 f"site {sid} op={ops[sid]} place={sidx[sid][1]['place']} approved={sorted(approved)} driver={driver} fmt={fmt_tag(fmt)}\n"
                 f"  values at comparison time: {[repr(x)[:80] for x in sm.obs][:6]}\n  expected {want!r:.300}\n  written  {call.arg_text!r:.300}\n"
                 f"--- test file\n{files['test_a.py'][:1200]}")
    isr = sidx.get("isr")
    if isr is not None and ("test_a.py", "isr") in after:
        ctx.count("probe_eq_snapshot_with_Is_part_reevaluated_while_the_value_grows")
        call = after[("test_a.py", "isr")]
        want = [isr[1]["first"]] if "fix" in approved else []
        try:
            got = P.eval_arg(call.arg_text)[1]
        except Exception as ex:
            got = f"<{ex}>"
        if got != want:
            viol("value-at-comparison-time", "eq:written-value-differs-from-value-at-comparison-time:Is-part-re-evaluated",
                 f"approved={sorted(approved)} driver={driver}: the managed part was {want} at the first comparison, written: {call.arg_text!r}\n--- test file\n{files['test_a.py'][:1500]}")
    out["sample"] = {"approved": sorted(approved), "driver": driver, "file": files["test_a.py"][:900]}
    return out


def shrink(case):
    import json

    prog = case["program"]
    f = prog["files"][0]
    if len(f["tests"]) > 1:
        for ti in range(len(f["tests"])):
            c = json.loads(json.dumps(case))
            del c["program"]["files"][0]["tests"][ti]
            yield c
    for ti, t in enumerate(f["tests"]):
        for ei, e in enumerate(t["events"]):
            if e.get("t") in ("cmp", "mutate", "stmt"):
                c = json.loads(json.dumps(case))
                del c["program"]["files"][0]["tests"][ti]["events"][ei]
                yield c
    if f.get("header"):
        c = json.loads(json.dumps(case))
        c["program"]["files"][0]["header"] = {}
        yield c
    if case["fmt"]["kind"] != "black":
        yield dict(case, fmt={"kind": "black"})
    if case["driver"] == "plugin":
        yield dict(case, driver="inline")
