"""C08 - a second run is a no-op.

Histories S0 -F-> S1 -F-> S2 of identical sessions over the durable project directory (same
formatter state in both), for F = all four categories and for arbitrary F.  Oracle: S2 == S1 byte
for byte; for F = all additionally: nothing to create / fix / trim reported, no diff, exit 0.
"""
from .. import drivers, sim
from ..gen import program as P
from ..gen import values as V
from ..gen import workload as W
from ..prng import sub
from .c01 import draw_fmt, fmt_tag

ID = "C08"
PROBES = ['first_session_changed_files']  # reach probes: counters that must be non-zero in a run (a zero is printed and recorded)
LEVEL = "exploration"
BUDGET = {"quick": 1200, "thorough": 25000}
WALL = {"quick": 240, "thorough": 3000}
TECHNIQUE = "deterministic simulation: seeded histories of >= 2 identical sessions over a durable project directory, formatter as simulated party"
LEVEL_TEXT = ("seeded search over generated projects x approved sets x formatter states; each run is a history of two or three identical "
              "sessions, the oracle compares the durable state after the last two byte for byte; sampling, not proof")
LEVEL_NOTE = "trusted: determinism of the generated tests (no clock, no randomness, no I/O in test bodies), directory snapshots on tmpfs"
RULE = ("one run = project (1-5 sites, previous content absent / arbitrary, hand-styled or tool-styled) + approved set F (all four in half of "
        "the runs) + formatter state; sessions S0-F->S1-F->S2 (sometimes a third repeat); distinct = (value type-path, op, formatter, F); "
        "non-trivial = the first session changed at least one file")
RULE += " Dimensions added while testing against seeded changes: the compared object keeps changing after the comparison (mutation test); later sessions under another PYTHONHASHSEED; outsourced externals; persistent directory with bytecode caches and a logical clock; one == snapshot compared with equal but differently written values (1 / 1.0 / True / IntFlag); hash-length 64 / 8 in the externals projects; the repeated session removes no externals."
ASSUMPTIONS = ["test bodies are deterministic", "runs whose first session did not complete are discarded (C18)"]
REAL_VS_STUB = {
    "real": ["inline_snapshot library / plugin from /repo/src", "Example.run_inline (bulk)", "pytest + plugin (sample, gives exit status and report)", "black"],
    "stub": ["format-command stub / absent / failing black", "the user (scripted flags)"],
}
CATS = ["create", "fix", "trim", "update"]
PREV = ["none", "none", "same", "other", "edit", "slack", "wrong", "subset", "superset"]


def generate(seed, tier="quick"):
    rng = sub(seed, "program")
    hash_length = None
    want_plugin = sub(seed, "driver").random() < 0.25
    hrng = sub(seed, "hashseed")
    # every real pytest process draws its own hash seed: a share of the histories runs the later sessions in an interpreter that was
    # started with another PYTHONHASHSEED than the first one (sets of strings / of only partially ordered frozensets in the values)
    hashseed2 = hrng.choice(["1", "1234567"]) if (not want_plugin and hrng.random() < 0.12) else None
    if hashseed2:
        prof = V.draw_profile(sub(seed, "profile"), hash_sensitive=True, alphabet="plain")
        prof.special = sorted(set(prof.special) | {"set", "frozenset"} - {"norepr", "complex", "inf"})
    else:
        prof = V.draw_profile(sub(seed, "profile"))
    prof.special = [s for s in prof.special if s != "norepr"]
    prog = W.gen_program(rng, prof, {"prev": PREV, "n_files": (1, 3), "n_sites": (1, 4), "n_tests": (1, 3), "hand": 0.5, "idle": 0.2})
    erng = sub(seed, "externals")
    if want_plugin and erng.random() < 0.5:
        from . import c13

        f = prog["files"][0]
        need_import = False
        for k in range(erng.randint(1, 2)):
            sid = f"x{k}"
            prevx = erng.choice([None, None, '"old"', 'external("00000000aaaa*.txt")'])
            need_import = need_import or (prevx is not None and "external" in prevx)
            f["sites"][sid] = {"op": "eq", "place": "direct", "arg": prevx, "prev": None}
            erng.choice(f["tests"])["events"].append({"t": "cmp", "eid": f"ex{k}", "site": sid, "vals": [c13.wrap(erng, c13.ext_value(erng))], "style": "rec"})
        if need_import:
            f["header"]["imports"] = "explicit"
            f["header"].setdefault("pre", []).insert(0, "from inline_snapshot import external")
        hash_length = erng.choice([None, None, 64, 8])
    mrng = sub(seed, "mutation")
    if mrng.random() < 0.3:
        # the compared object keeps changing after the comparison: what the first run writes must be what was compared, else the second run changes it again
        W.add_mutation_test(mrng, prog["files"][0], style="rec")
    qrng = sub(seed, "equal-twins")
    if qrng.random() < 0.15:
        # one == snapshot compared several times per session with values that are equal but written differently (1 / 1.0 / True, 200 / an IntFlag):
        # whatever the first run settles on is what every later run finds
        f = prog["files"][0]
        vals = qrng.choice([[["int", 1], ["float", "1.0"]], [["float", "1.0"], ["int", 1]], [["bool", True], ["int", 1], ["float", "1.0"]], [["int", 2], ["raw", "IPerm.W"]],
                            [["raw", "IPerm.R"], ["int", 1]], [["tuple", [["int", 0], ["int", 1]]], ["tuple", [["bool", False], ["float", "1.0"]]]]])
        f["sites"]["tw1"] = {"op": "eq", "place": qrng.choice(["direct", "func"]), "arg": qrng.choice([None, V.expr(vals[0]), V.expr(vals[-1])]), "prev": None}
        if f["sites"]["tw1"]["place"] == "direct":
            qrng.choice(f["tests"])["events"].append({"t": "cmp", "eid": "etw1", "site": "tw1", "vals": vals, "style": "rec"})
        else:
            for i, v in enumerate(vals):
                qrng.choice(f["tests"])["events"].append({"t": "cmp", "eid": f"etw1_{i}", "site": "tw1", "vals": [v], "style": "rec"})
    frng = sub(seed, "flags")
    approved = list(CATS) if frng.random() < 0.5 else [c for c in CATS if frng.random() < 0.5]
    driver = "plugin" if sub(seed, "driver").random() < 0.25 else "inline"
    W.sprinkle_uni(prog, sub(seed, "uni"), 0.12)
    return {"program": prog, "approved": approved, "driver": driver, "fmt": draw_fmt(sub(seed, "fmt")), "repeats": 3 if frng.random() < 0.2 else 2,
            "hashseed2": hashseed2, "hash_length": hash_length}


def _is_complex_arith(n):
    import ast

    if isinstance(n, ast.Constant):
        return isinstance(n.value, (int, float, complex)) and not isinstance(n.value, bool)
    if isinstance(n, ast.UnaryOp) and isinstance(n.op, (ast.USub, ast.UAdd)):
        return _is_complex_arith(n.operand)
    if isinstance(n, ast.BinOp) and isinstance(n.op, (ast.Add, ast.Sub)):
        return _is_complex_arith(n.left) and _is_complex_arith(n.right)
    return False


def _has_complex_const(n):
    import ast

    return any(isinstance(x, ast.Constant) and isinstance(x.value, complex) for x in ast.walk(n))


def _mask_complex(tree):
    import ast

    class T(ast.NodeTransformer):
        def generic_visit(self, node):
            if isinstance(node, ast.expr) and _is_complex_arith(node) and _has_complex_const(node):
                return ast.Constant("<complex-literal>")
            return super().generic_visit(node)

    return ast.dump(T().visit(tree))


def classify(prog, changed):
    """changed: [(sid, argument region after run k, after run k+1)].  The two listed findings are narrow:
    (1) same syntax tree, only more parentheses, around a complex literal; (2) the only difference is how a complex
    literal with a zero real part is spelled ('-3.5j' <-> '(-0 - 3.5j)'), the value being equal."""
    import ast

    if not changed:
        return "second-run-changes-file"
    kinds = set()
    for sid, a, b in changed:
        if not a or not b:
            return "second-run-changes-file"
        a, b = a.rstrip(", \n\t"), b.rstrip(", \n\t")
        try:
            ta, tb = ast.parse(a, mode="eval"), ast.parse(b, mode="eval")
        except SyntaxError:
            return "second-run-changes-file"
        if ast.dump(ta) == ast.dump(tb):
            only_parens = "".join(c for c in a if c not in "() \n\t,") == "".join(c for c in b if c not in "() \n\t,")
            if _has_complex_const(ta) and only_parens and b.count("(") > a.count("("):
                kinds.add("complex-gains-parentheses-per-update")
                continue
            site = [st for f in prog["files"] for s2, st in f["sites"].items() if s2 == sid][0]
            has_1tuple = any(isinstance(n, ast.Tuple) and len(n.elts) == 1 for n in ast.walk(ta))
            same_tokens = "".join(a.split()).replace(",]", "]").replace(",)", ")").replace(",}", "}") == "".join(b.split()).replace(",]", "]").replace(",)", ")").replace(",}", "}")
            has_exp_float = any(isinstance(n, ast.Constant) and isinstance(n.value, float) and "e+" in repr(n.value) for n in ast.walk(ta))
            # the element is reported as update on every run, so the next run regenerates it: any syntax-tree preserving
            # difference (layout, merged implicit string concatenation) of such an element belongs to this finding
            # (a complex literal inside the element has the same effect: repr gives '(-2-3.5j)', the source tokens are '-2 - 3.5j')
            if site["op"] in ("in", "item") and (has_1tuple or has_exp_float or _has_complex_const(ta)):
                kinds.add("in-element-with-1-tuple-relaid-out-by-next-update")
                continue
            return "second-run-changes-file"
        if _has_complex_const(ta) and _has_complex_const(tb) and _mask_complex(ta) == _mask_complex(tb):
            try:
                if P.eval_arg(a) == P.eval_arg(b):
                    kinds.add("complex-signed-zero-respelled-per-update")
                    continue
            except Exception:
                pass
        return "second-run-changes-file"
    return sorted(kinds)[-1]


def execute(case, ctx):
    prog, driver, fmt = case["program"], case["driver"], case["fmt"]
    approved = case["approved"]
    out = {"violations": [], "discards": {}, "abstract": []}
    files, orders = P.render(prog, drivers.simlib_text())
    if driver == "plugin":
        # (hash-length 64: references to outsourced data carry the whole hash, without the "*" that also matches the "-new" infix)
        files["pyproject.toml"] = sim.pyproject_for(fmt, tool={"hash-length": case["hash_length"]} if case.get("hash_length") else None)
    flags = ",".join((["report"] if driver == "plugin" else []) + sorted(approved)) or None
    spec = {"flags": flags, "fmt": fmt}
    if driver == "plugin" and case.get("bytecode", True):
        spec.update(persistent=True, bytecode=True)
        ctx.count("probe_persistent_directory_with_bytecode_cache")
    s0 = sim.to_bytes(files)
    s1, r1 = sim.run_session(ctx, driver, s0, spec)
    if not sim.session_completed(driver, r1):
        out["discards"]["first-session-did-not-complete(C18)"] = 1
        return out
    prev, prev_res = s1, r1
    for k in range(case.get("repeats", 2) - 1):
        if case.get("hashseed2") and driver == "inline":
            from . import c16

            ctx.count("probe_later_session_under_another_hash_seed")
            ans = c16.call(case["hashseed2"], driver, prev, spec)
            nxt = dict(sim.to_bytes(ans["files"]), **{k2: v2 for k2, v2 in prev.items() if k2 == "simlib.py"})
            res = {"status": ans.get("status"), "categories": ans.get("categories"), "raises": ans.get("raises"), "exc": ans.get("exc"), "_completed": ans.get("completed")}
        else:
            nxt, res = sim.run_session(ctx, driver, prev, spec)
        if not (res["_completed"] if "_completed" in res else sim.session_completed(driver, res)):
            # the same deterministic session completed before: not completing now is itself a change of behaviour,
            # but whether session-finish completes is C18's statement
            out["discards"]["repeat-session-did-not-complete(C18)"] = 1
            return out
        ctx.count("clauses_checked")
        changed = sorted(k2 for k2 in set(prev) | set(nxt) if prev.get(k2) != nxt.get(k2) and not k2.startswith(".inline-snapshot/external/.gitignore"))
        if changed:
            # which sites changed?
            csites = []
            try:
                a = sim.site_map(sim.to_text(prev), orders)
                b = sim.site_map(sim.to_text(nxt), orders)
                csites = [(sid, a[(fn, sid)].region_text, c.region_text) for (fn, sid), c in b.items() if a[(fn, sid)].region_text != c.region_text]
            except Exception:
                pass
            sig = classify(prog, csites)
            fn = changed[0]
            out["violations"].append({"clause": "fixed-point", "sig": sig,
                                      "detail": f"driver={driver} fmt={fmt_tag(fmt)} approved={sorted(approved)}: run {k + 2} changed {changed} again\n"
                                                f"--- after run {k + 1}\n{prev.get(fn, b'').decode('utf-8', 'replace')[:700]}\n--- after run {k + 2}\n{nxt.get(fn, b'').decode('utf-8', 'replace')[:700]}"})
            break
        if set(approved) == set(CATS):
            if driver == "inline":
                pend = set(res.get("categories") or []) & {"create", "fix", "trim"}
                if pend:
                    out["violations"].append({"clause": "nothing-pending", "sig": "second-run-reports:" + "+".join(sorted(pend)),
                                              "detail": f"after a run with all categories approved the next run still reports {sorted(pend)}"})
                # run_inline raises what the tests raised; after create+fix every snapshot holds
                if res.get("raises") and not prev_res.get("raises"):
                    out["violations"].append({"clause": "second-run-passes", "sig": "test-raises-in-second-run",
                                              "detail": f"second run raised: {str(res.get('raises'))[:300]}"})
            else:
                import re as _re

                mrem = _re.search(r"removed \d+ unused externals", res.get("out", ""))
                if mrem:
                    # a second run is a no-op: it has nothing to delete either (the durable state may look the same because the run re-created what it deletes)
                    out["violations"].append({"clause": "nothing-pending", "sig": "second-run-removes-externals",
                                              "detail": f"the repeated session reports '{mrem.group(0)}' (hash-length={case.get('hash_length')})\n{res.get('out', '')[-1200:]}"})
                shown = drivers.report_categories(res.get("out", ""))
                if shown:
                    out["violations"].append({"clause": "nothing-pending", "sig": "second-run-shows-diff:" + "+".join(shown),
                                              "detail": f"second run shows diff sections {shown}\n{res.get('out', '')[-1200:]}"})
                uerr = [n for n, t in res.get("tests", {}).items() if "failed" in (t.get("setup"), t.get("call"), t.get("teardown"))]
                if res.get("rc") != 0 and not _usage_error_tests(r1):
                    out["violations"].append({"clause": "second-run-passes", "sig": "nonzero-exit-after-all-approved",
                                              "detail": f"rc={res.get('rc')} failing={uerr}\n{res.get('out', '')[-1500:]}"})
        prev, prev_res = nxt, res
    if s1 != s0:
        ctx.count("first_session_changed_files")
        for f in prog["files"]:
            for sid, s in f["sites"].items():
                for t in f["tests"]:
                    for e in t["events"]:
                        if e.get("t") == "cmp" and e["site"] == sid and e.get("vals"):
                            out["abstract"].append(f"{s['op']}|{V.type_path(e['vals'][0], 2)}|{fmt_tag(fmt)}|{'+'.join(sorted(approved))}")
        out["sample"] = {"approved": approved, "driver": driver, "fmt": fmt_tag(fmt), "after_first_run": sim.to_text(s1).get("test_a.py", "")[:400]}
    return out


def _usage_error_tests(res):
    """tests that failed in the first (all-approved) run for reasons that persist (usage errors raised inside comparisons)"""
    return [n for n, t in res.get("tests", {}).items() if t.get("call") == "failed"]


def shrink(case):
    for p in W.shrink_program(case["program"]):
        yield dict(case, program=p)
    for c in case["approved"]:
        yield dict(case, approved=[a for a in case["approved"] if a != c])
    if case["fmt"]["kind"] != "black":
        yield dict(case, fmt={"kind": "black"})
    if case["driver"] == "plugin":
        yield dict(case, driver="inline")
    if case.get("repeats", 2) > 2:
        yield dict(case, repeats=2)
