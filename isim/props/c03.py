"""C03 - rewriting touches only the arguments of snapshot() calls.

Every session step of every history is checked (so also files already rewritten once, and sessions
under an absent / failing formatter where the byte-for-byte clause applies because no whole-file
formatting can happen).  Formatter state decides which clause applies; the file-I/O seam carries
newlines and encoding; change sets span 1-3 files.
"""
import ast

from .. import drivers, sim
from ..gen import program as P
from ..gen import values as V
from ..gen import workload as W
from ..prng import sub
from .c01 import draw_fmt, fmt_tag

ID = "C03"
PROBES = ['files_compared']  # reach probes: counters that must be non-zero in a run (a zero is printed and recorded)
LEVEL = "exploration"
BUDGET = {"quick": 1000, "thorough": 25000}
WALL = {"quick": 300, "thorough": 3400}
TECHNIQUE = "deterministic simulation: seeded session histories over a durable directory; before/after comparison of every file with the changed argument spans masked, clause chosen by the simulated formatter state"
LEVEL_TEXT = ("seeded search over layouts (non-ASCII text left of the call, trailing comments, tabs, two sites on one line, multi-line arguments with comments, "
              "nested calls, LF / CRLF, formatter-clean or not, 1-3 files) x approved sets x formatter states x 1-3 sessions; after each session every changed "
              "file must parse and equal the old file outside the changed arguments - as bytes when no whole-file formatting applies, as syntax tree otherwise")
LEVEL_NOTE = ("trusted: the harness's own notion of 'formatter-clean' (black.format_str with the default mode, called independently), ast-based location of the "
              "outermost snapshot() calls; the only other edit allowed is the inserted import of external / HasRepr")
RULE = ("one run = project x approved set x formatter state x 1-3 sessions; masked comparison per file and step; distinct = (layout features, #edits per file, "
        "clean?, formatter state, clause); non-trivial = a step that changed at least one argument")
RULE += " Dimensions added while testing against seeded changes: review sessions with partial answers (clause: a snapshot whose category was declined is not rewritten), files with mixed CRLF / LF line ends and with a UTF-8 byte order mark, a flaky format-command (some calls exit non-zero after writing a valid prefix), locale encoding of the session as environment seam; content computed by an approving session that does not parse (refused by the library's parse) is a violation of the first clause; parenthesised dict values / keyword arguments next to changed neighbours."
ASSUMPTIONS = ["format-command stubs are AST-preserving (checked by construction: black or identity)"]
REAL_VS_STUB = {
    "real": ["inline_snapshot library / plugin from /repo/src", "Example.run_inline (bulk)", "pytest + plugin", "black", "real files on tmpfs (newlines, encoding)"],
    "stub": ["format-command stub / absent / raising black", "the user"],
}
CATS = ["create", "fix", "trim", "update"]
IMPORTS = ["\nfrom inline_snapshot import external\n", "\nfrom inline_snapshot import HasRepr\n"]
UNI = ["äöü", "🐍ß", "日本語", "é"]


def generate(seed, tier="quick"):
    rng = sub(seed, "program")
    prof = V.draw_profile(sub(seed, "profile"), max_depth=2)
    driver = "plugin" if sub(seed, "driver").random() < 0.2 else "inline"
    if sub(seed, "norepr").random() < 0.4 and "norepr" not in prof.special:
        prof.special.append("norepr")  # needs the inserted HasRepr import
    prog = W.gen_program(rng, prof, {"prev": ["none", "same", "other", "other", "wrong", "edit", "edit", "slack", "wrong", "subset", "superset"], "n_files": (1, 3), "n_sites": (1, 4),
                                     "n_tests": (1, 3), "styles": ["assert", "rec"], "hand": 0.6, "layout": False, "idle": 0.15})
    lr = sub(seed, "layout")
    n = 0
    for f in prog["files"]:
        f["header"] = W.gen_layout_c03(lr)
        if not f["header"].get("eol") and not f["header"].get("tabs") and sub(seed, "mixed-eol" + f["name"]).random() < 0.05:
            f["header"]["eol"] = "mixed"
        if sub(seed, "bom" + f["name"]).random() < 0.06:
            f["header"]["bom"] = True  # the file starts with a UTF-8 byte order mark (editors on windows write one)
        for t in f["tests"]:
            for e in t["events"]:
                if e.get("t") == "cmp":
                    if lr.random() < 0.5:
                        e["uni"] = lr.choice(UNI)
                    if lr.random() < 0.3:
                        e["trail"] = lr.choice(["ünï comment", "keep in sync with the table", "日本 🐍"])
        if lr.random() < 0.3:
            n += 1
            a, b = f"p{n}a", f"p{n}b"
            f["sites"][a] = {"op": "eq", "place": "direct", "arg": lr.choice([None, "1"]), "prev": None}
            f["sites"][b] = {"op": lr.choice(["eq", "in"]), "place": "direct", "arg": lr.choice([None, "[2]"]), "prev": None}
            lr.choice(f["tests"])["events"].append({"t": "cmp2", "eid": f"pp{n}", "sites": [a, b], "vals": [["str", lr.choice(UNI)], ["int", lr.randint(0, 3)]]})
    qrng = sub(seed, "parenthesised-entries")
    if qrng.random() < 0.12:
        # dict entries / keyword arguments whose value (or key) alone is written in parentheses, next to entries that are inserted or deleted
        f = prog["files"][0]
        arg, val = qrng.choice([
            ('{"a": (1 + 2j), "b": ("x" "y"), "c": 5}', '{"a": 1 + 2j, "c": 5}'),
            ('{"a": (1 + 2j), "b": (3 + 4j), "c": 5}', '{"a": 1 + 2j}'),
            ('{"a": (1 + 2j), "c": 5}', '{"a": 1 + 2j, "b": 7, "c": 5}'),
            ('{(-1): "x", 2: "y"}', '{-1: "x", 3: "z"}'),
            ('DC(a=(1 + 2j), b=("x" "y"), c=[1])', 'DC(a=1 + 2j, c=[1])'),
            ('DC(a=(1 + 2j), c=[1])', 'DC(a=1 + 2j, b=3, c=[1])'),
        ])
        f["sites"]["pq1"] = {"op": "eq", "place": qrng.choice(["direct", "func"]), "arg": arg, "prev": None}
        qrng.choice(f["tests"])["events"].append({"t": "cmp", "eid": "epq1", "site": "pq1", "vals": [["raw", val]], "style": qrng.choice(["assert", "rec"])})
    frng = sub(seed, "flags")
    steps = [frng.choice([["create", "fix"], list(CATS), ["fix"], ["create"], ["trim", "update"], ["update"], [c for c in CATS if frng.random() < 0.5]]) for _ in range(frng.choice([1, 1, 2, 3]))]
    fmt = draw_fmt(sub(seed, "fmt"))
    crng = sub(seed, "crlf-formatter")
    if any(f.get("header", {}).get("eol") == "crlf" for f in prog["files"]) and crng.random() < 0.5:
        # a CRLF project whose format-command writes CRLF as well
        fmt = {"kind": "cmd", "stub": "black-crlf", "mode": {"line_length": crng.choice([40, 88])}}
    prng3 = sub(seed, "flaky-formatter")
    if fmt["kind"] == "cmd" and fmt.get("stub") in (None, "black") and prng3.random() < 0.3:
        # some calls of the format-command fail with a non-zero exit status after a part of the answer was written (the part is valid Python)
        fmt = dict(fmt, exit1_partial_at=sorted(prng3.sample(range(0, 8), prng3.randint(1, 4))))
    clean = sub(seed, "clean").random() < 0.35
    # a file that the formatter would only change at its very edges (no final newline, blank lines at the start / end): not clean, to be left alone
    edge = sub(seed, "edge").choice([None, "no-final-newline", "trailing-blank-lines", "leading-blank-lines"]) if clean else None
    # a share of the plugin histories approves through review answers: the categories of a step are the ones answered with yes, every other
    # pending category is shown and declined ("other snapshots are preserved": a snapshot whose change was declined is not rewritten)
    review = driver == "plugin" and sub(seed, "review").random() < 0.45
    return {"program": prog, "steps": steps, "driver": driver, "fmt": fmt, "clean": clean, "edge": edge, "review": review}


def is_clean(text):
    import black

    try:
        return black.format_str(text, mode=black.FileMode()) == text
    except Exception:
        return False


def strip_imports(new_text, old_text):
    for imp in IMPORTS:
        for variant in (imp, imp.replace("\n", "\r\n")):
            if variant in new_text and variant not in old_text:
                new_text = new_text.replace(variant, "", 1)
    return new_text


def execute(case, ctx):
    ctx.persistent = True  # plugin sessions of this history share one directory incl. __pycache__ (logical clock for mtimes, see sim.sync_tree)
    prog, driver, fmt = case["program"], case["driver"], case["fmt"]
    out = {"violations": [], "discards": {}, "abstract": []}

    def viol(clause, sig, detail):
        if not any(v["clause"] == clause and v["sig"] == sig for v in out["violations"]):
            out["violations"].append({"clause": clause, "sig": sig, "detail": detail})

    files, orders = P.render(prog, drivers.simlib_text())
    if case.get("clean"):
        import black

        for k in list(files):
            if k.startswith("test_") and "\r" not in files[k] and "\t" not in files[k]:
                try:
                    mark = "\ufeff" if files[k].startswith("\ufeff") else ""
                    files[k] = mark + black.format_str(files[k][len(mark):], mode=black.FileMode())
                except Exception:
                    continue
                if case.get("edge") == "no-final-newline":
                    files[k] = files[k].rstrip("\n")
                elif case.get("edge") == "trailing-blank-lines":
                    files[k] = files[k] + "\n\n"
                elif case.get("edge") == "leading-blank-lines":
                    files[k] = mark + "\n\n" + files[k][len(mark):]  # (a byte order mark stays the first character of the file)
        if case.get("edge"):
            ctx.count("probe_file_unclean_only_at_its_edges")
    if driver == "plugin":
        files["pyproject.toml"] = sim.pyproject_for(fmt)
    cur = sim.to_bytes(files)
    for si, cats in enumerate(case["steps"]):
        flags = ",".join((["report"] if driver == "plugin" else []) + sorted(cats)) or None
        review = bool(case.get("review")) and driver == "plugin"
        if review:
            flags = "review"
            new, res = sim.run_session(ctx, driver, cur, {"flags": "review", "answers": {c: c in cats for c in CATS}, "fmt": fmt})
            flags = "review(yes=" + "+".join(sorted(cats)) + ")"
            ctx.count("probe_review_session_with_declined_categories" if len(res.get("asked") or []) > len([a for a in res.get("asked") or [] if a[1]]) else "review_sessions")
        else:
            new, res = sim.run_session(ctx, driver, cur, {"flags": flags, "fmt": fmt})
        if not sim.session_completed(driver, res):
            cv = sim.completion_violation(driver, res, f"step {si} flags={flags} fmt={fmt_tag(fmt)}")
            if cv["sig"].startswith("session-died:SyntaxError@") and cats:
                # the content the session computed for a file is not valid Python: the library's own parse before writing refused it (and with it
                # every approved change of the session) - "whatever is approved, a rewritten test file is still valid Python"
                viol("valid-python", "new-content-does-not-parse:" + cv["sig"].split("@", 1)[1], cv["detail"] + "\n--- first file\n" + sim.to_text(cur).get(prog["files"][0]["name"], "")[:1200])
            else:
                out["discards"]["session-did-not-complete(C18)"] = 1
            return out
        ctx.count("clauses_checked")
        for fn in sorted(k for k in cur if k.startswith("test_")):
            old_b, new_b = cur[fn], new.get(fn)
            if new_b == old_b:
                continue
            if new_b is None:
                viol("file-kept", "test-file-removed", fn)
                continue
            try:
                old_t, new_t = old_b.decode("utf-8"), new_b.decode("utf-8")
            except UnicodeDecodeError:
                viol("valid-python", "file-not-utf8-after-rewrite", fn)
                continue
            if old_t.startswith("\ufeff") != new_t.startswith("\ufeff"):
                viol("outside-untouched", "byte-order-mark-" + ("lost" if old_t.startswith("\ufeff") else "added"), f"step {si} {fn} flags={flags} fmt={fmt_tag(fmt)} driver={driver}")
            bom_o, bom_n = old_t[:1] == "\ufeff", new_t[:1] == "\ufeff"
            if bom_o:
                ctx.count("probe_file_with_byte_order_mark_rewritten")
            old_t, new_t = old_t.lstrip("\ufeff"), new_t.lstrip("\ufeff")
            try:
                compile(new_t, fn, "exec", dont_inherit=True)  # more than ast.parse: also `from __future__` placement, duplicate arguments ...
                osites = P.find_sites(old_t)
                nsites = P.find_sites(new_t)
            except SyntaxError as ex:
                viol("valid-python", "rewritten-file-does-not-parse", f"step {si} {fn} flags={flags} fmt={fmt_tag(fmt)} driver={driver}: {ex}\n--- before\n{old_t[:900]}\n--- after\n{new_t[:900]}")
                continue
            if len(osites) != len(nsites):
                viol("outside-untouched", "number-of-snapshot-calls-changed", f"step {si} {fn}: {len(osites)} -> {len(nsites)}")
                continue
            changed = {i for i, (a, b) in enumerate(zip(osites, nsites)) if a.region_text != b.region_text}
            if review:
                declined_clause(case, cats, fn, osites, nsites, orders, changed, viol, f"step {si} {fn} {flags} fmt={fmt_tag(fmt)}", old_t, new_t)
            for name in ("external", "HasRepr"):
                inserted = any(isinstance(n, ast.ImportFrom) and n.module == "inline_snapshot" and any(a.name == name for a in n.names) for n in ast.parse(new_t).body) and not \
                    any(isinstance(n, ast.ImportFrom) and n.module == "inline_snapshot" and any(a.name == name for a in n.names) for n in ast.parse(old_t).body)
                if inserted:
                    ctx.count("probe_import_inserted")
                    used = any(isinstance(n, ast.Call) and isinstance(n.func, ast.Name) and n.func.id == name for n in ast.walk(ast.parse(new_t)))
                    if not used:
                        viol("only-needed-imports", f"import-of-{name}-inserted-although-the-file-does-not-use-it",
                             f"step {si} {fn} flags={flags} driver={driver}: 'from inline_snapshot import {name}' was added but no {name}(...) call exists in the file\n{new_t[:800]}")
            whole_file = fmt["kind"] == "cmd" or (fmt["kind"] in ("absent", "raises")) or is_clean(old_t.replace("\r\n", "\n"))
            # with black absent / raising the library treats the file as 'formatted' but the formatter returns its input: no reformatting can happen
            can_reformat = (fmt["kind"] == "cmd" and fmt.get("stub") != "identity") or (fmt["kind"] == "black" and is_clean(old_t.replace("\r\n", "\n")))
            mo = P.mask_sites(old_t, changed)
            mn = P.mask_sites(strip_imports(new_t, old_t), changed)
            feats = [k for k in ("tabs", "eol", "comment") if prog["files"][[f["name"] for f in prog["files"]].index(fn)]["header"].get(k)]
            out["abstract"].append(f"{'+'.join(feats)}|edits={min(len(changed), 3)}|{'ast' if can_reformat else 'bytes'}|{fmt_tag(fmt)}")
            ctx.count("files_compared")
            if not can_reformat:
                if mo != mn:
                    # narrow signature for the listed finding: only the line ends changed
                    if mo.replace(b"\r\n", b"\n") == mn.replace(b"\r\n", b"\n"):
                        sig = "line-ends-normalised:" + ("mixed" if b"\r\n" in mo and b"\n" in mo.replace(b"\r\n", b"") else "crlf" if b"\r\n" in mo else "other")
                    else:
                        sig = "bytes-outside-changed-arguments-differ"
                    a, b = mo.decode("utf-8", "replace"), mn.decode("utf-8", "replace")
                    pos = next((i for i, (x, y) in enumerate(zip(a, b)) if x != y), min(len(a), len(b)))
                    viol("outside-untouched", sig, f"step {si} {fn} flags={flags} fmt={fmt_tag(fmt)} driver={driver} (no whole-file formatting applies): first difference at offset {pos}\n"
                                                   f"--- before (masked)\n{a[max(0, pos - 200): pos + 200]!r}\n--- after (masked)\n{b[max(0, pos - 200): pos + 200]!r}")
            else:
                try:
                    ta, tb = ast.parse(mo.decode("utf-8")), ast.parse(mn.decode("utf-8"))
                    # the inserted import may have been re-laid-out by the formatter: drop it at tree level
                    had = {ast.dump(n) for n in ta.body if isinstance(n, ast.ImportFrom)}
                    tb.body = [n for n in tb.body if not (isinstance(n, ast.ImportFrom) and n.module == "inline_snapshot" and ast.dump(n) not in had
                                                          and {a.name for a in n.names} <= {"external", "HasRepr"})]
                    da, db = ast.dump(ta), ast.dump(tb)
                except SyntaxError as ex:
                    viol("valid-python", "masked-file-does-not-parse", f"{fn}: {ex}")
                    continue
                if da != db:
                    viol("outside-untouched", "syntax-tree-outside-changed-arguments-differs", f"step {si} {fn} flags={flags} fmt={fmt_tag(fmt)} driver={driver}\n--- before\n{old_t[:1000]}\n--- after\n{new_t[:1000]}")
        for k in new:
            if not k.startswith("test_") and k in cur and new[k] != cur[k] and not k.startswith(".inline-snapshot"):
                viol("other-files", "non-test-file-modified", k)
        cur = new
    out["sample"] = {"steps": case["steps"], "driver": driver, "fmt": fmt_tag(fmt), "file": files[prog["files"][0]["name"]][:600]}
    return out


def declined_clause(case, cats, fn, osites, nsites, orders, changed, viol, ctxt, old_t, new_t):
    """review session, categories not answered with yes were declined: the snapshots those categories speak about are 'other snapshots'.
    Only what follows from the meaning of a category alone is demanded (no model of the pending set):
      create declined            -> an empty snapshot() stays empty (nothing but create ever fills one);
      only create approved       -> an argument that exists (no inner snapshot(), not a s[key] parent) keeps its syntax tree;
      at most update approved    -> an argument that exists keeps its value."""
    yes = set(cats)
    order = orders.get(fn) or []
    fsites = next((f["sites"] for f in case["program"]["files"] if f["name"] == fn), {})
    for i in sorted(changed):
        a, b = osites[i], nsites[i]
        site = fsites.get(order[i], {}) if i < len(order) else {}
        detail = f"{ctxt}: snapshot #{i} (line {a.lineno}) {a.region_text[:200]!r} -> {b.region_text[:200]!r}\n--- before\n{old_t[:900]}\n--- after\n{new_t[:900]}"
        if a.arg_text is None:
            if "create" not in yes:
                viol("declined-change-not-written", "empty-snapshot-filled-although-create-was-declined", detail)
            continue
        if "snapshot(" in a.region_text or site.get("op") == "item":
            continue
        if yes <= {"create"}:
            # (compared as syntax trees: when whole-file formatting applies, the formatter may re-quote or re-wrap any argument)
            try:
                same_tree = ast.dump(ast.parse("(\n" + a.arg_text + "\n)", mode="eval")) == ast.dump(ast.parse("(\n" + (b.arg_text or "None") + "\n)", mode="eval"))
            except SyntaxError:
                continue
            if not same_tree:
                viol("declined-change-not-written", "existing-argument-rewritten-although-only-create-was-approved", detail)
        elif yes <= {"update"}:
            try:
                same = P.eval_arg(a.arg_text) == P.eval_arg(b.arg_text) if b.arg_text is not None else False
            except Exception:
                continue
            if same is False:
                viol("declined-change-not-written", "value-changed-although-only-update-was-approved", detail)


def shrink(case):
    if len(case["steps"]) > 1:
        for i in range(len(case["steps"])):
            yield dict(case, steps=case["steps"][:i] + case["steps"][i + 1:])
    for p in W.shrink_program(case["program"]):
        yield dict(case, program=p)
    if case["fmt"]["kind"] != "black":
        yield dict(case, fmt={"kind": "black"})
    if case.get("clean"):
        yield dict(case, clean=False)
    if case["driver"] == "plugin" and not case.get("review"):
        yield dict(case, driver="inline")
