"""C20 - a formatter-clean test file stays formatter-clean.

Config seam x formatter party: the project's pyproject.toml carries a per-run black mode (line
length 20-120, skip-magic-trailing-comma, skip-string-normalization, preview); test files are made
clean by the harness with exactly that mode, or left unclean.  Every session step of the history
is checked: clean before => black.format_str(new, mode) == new with the mode built independently by
the harness from the same file (instabilities of black itself are counted, not reported); unclean
before and no format-command => the byte-level clause of C03.  Weak leverage.
"""
import ast

from .. import drivers, sim
from ..gen import program as P
from ..gen import values as V
from ..gen import workload as W
from ..prng import sub
from . import c03

ID = "C20"
PROBES = ['probe_clean_file_changed', 'probe_unclean_file_changed']  # reach probes: counters that must be non-zero in a run (a zero is printed and recorded)
LEVEL = "exploration"
BUDGET = {"quick": 420, "thorough": 12000}
WALL = {"quick": 300, "thorough": 3400}
TECHNIQUE = "deterministic simulation: seeded session histories under a per-run formatter configuration read through the project's pyproject.toml; the harness re-formats independently and compares"
LEVEL_TEXT = ("seeded search over black options in pyproject.toml x clean / unclean files x change sets with values just over the line limit and magic trailing "
              "commas inside inserted elements x 1-2 sessions, real pytest sessions started in the project directory or next to it; sampling")
LEVEL_NOTE = "trusted: black itself (called by the harness with a mode built from the same options); black's own instabilities are attributed by a second formatting pass and counted"
RULE = ("one run = project (1-2 files) + [tool.black] options + approved set + 1-2 sessions; clean files must stay fixed points of black with the project's mode; "
        "distinct = (options, clean?, categories, #changed arguments); non-trivial = a clean file that a session changed")
RULE += " Dimensions added while testing against seeded changes: sessions started in a neighbouring project directory that configures a format-command of its own; a black that fails for single value fragments only; sub-package with its own pyproject.toml; trim-only sessions; a transient failure of black on the first whole-file request for new content."
ASSUMPTIONS = ["pyproject.toml with [tool.black] sits in the project directory (the session may be started elsewhere)", "real black only (no format-command in the project) for the clean clause"]
REAL_VS_STUB = {
    "real": ["pytest", "inline_snapshot plugin + library from /repo/src (file_mode_for_path, format_code)", "black", "pyproject.toml read by black's own parser"],
    "stub": ["the user"],
}
CATS = ["create", "fix", "trim", "update"]


def draw_mode(rng):
    m = {}
    if rng.random() < 0.8:
        m["line-length"] = rng.choice([20, 30, 40, 60, 79, 88, 100, 120])
    if rng.random() < 0.4:
        m["skip-magic-trailing-comma"] = rng.random() < 0.7
    if rng.random() < 0.4:
        m["skip-string-normalization"] = rng.random() < 0.7
    if rng.random() < 0.2:
        m["preview"] = True
    return m


def mode_of(opts):
    import black

    m = black.FileMode()
    if "line-length" in opts:
        m.line_length = opts["line-length"]
    if "skip-magic-trailing-comma" in opts:
        m.magic_trailing_comma = not opts["skip-magic-trailing-comma"]
    if "skip-string-normalization" in opts:
        m.string_normalization = not opts["skip-string-normalization"]
    if opts.get("preview"):
        m.preview = True
    return m


def generate(seed, tier="quick"):
    rng = sub(seed, "program")
    prof = V.draw_profile(sub(seed, "profile"), max_depth=2, alphabet="plain")
    prof.special = [s for s in prof.special if s not in ("norepr",)]
    prof.max_len = rng.choice([3, 6, 10])
    prog = W.gen_program(rng, prof, {"prev": ["none", "other", "edit", "edit", "slack", "subset", "superset", "same"], "n_files": (1, 2), "n_sites": (1, 4),
                                     "n_tests": (1, 3), "styles": ["assert", "rec"], "hand": 0.3, "layout": False, "places": ["direct", "direct", "func", "module", "helper_arg"]})
    frng = sub(seed, "flags")
    steps = [frng.choice([["create", "fix"], list(CATS), ["fix"], ["create"], ["fix", "trim"], ["update"], ["trim"], ["trim"]]) for _ in range(frng.choice([1, 1, 2]))]
    lrng = sub(seed, "layout")
    # the test files live in a sub-package with its own pyproject.toml that has no [tool.black] table: the project's options are still the ones of the
    # pyproject.toml in the directory pytest was started in (black skips files without its table)
    subdir = lrng.choice(['[project]\nname = "pkg"\nversion = "1"\n', '[tool.isort]\nprofile = "black"\n', "", None]) if lrng.random() < 0.3 else None
    # the session is started in a directory next to the project, which is a project of its own with a format-command configured; the project under
    # test has none, so its files are formatted (or left alone) exactly as if pytest had been started inside it
    elsewhere = sub(seed, "elsewhere").random() < 0.25
    # black fails for some of the value fragments it is asked to format (and only for them): the whole-file pass still runs
    grng = sub(seed, "fragment-failures")
    frag_fail = sorted(grng.sample(range(0, 6), grng.randint(1, 3))) if (not elsewhere and grng.random() < 0.2) else None
    clean = sub(seed, "clean").random() < (0.5 if elsewhere else 0.75)
    # a transient failure of black: the first request to format the new content of a whole file fails, the later ones (among them the one whose
    # result is written) work; only for projects whose files are clean (the originals are fixed points, so the failure hits new content)
    transient = clean and not elsewhere and not frag_fail and sub(seed, "transient").random() < 0.2
    return {"program": prog, "black": draw_mode(sub(seed, "mode")), "steps": steps, "clean": clean, "subdir": subdir,
            "elsewhere": elsewhere, "frag_fail": frag_fail, "transient": transient}


def execute(case, ctx):
    ctx.persistent = True  # plugin sessions of this history share one directory incl. __pycache__ (logical clock for mtimes, see sim.sync_tree)
    import black

    prog, opts = case["program"], case["black"]
    out = {"violations": [], "discards": {}, "abstract": []}

    def viol(clause, sig, detail):
        if not any(v["clause"] == clause and v["sig"] == sig for v in out["violations"]):
            out["violations"].append({"clause": clause, "sig": sig, "detail": detail})

    mode = mode_of(opts)
    files, orders = P.render(prog, drivers.simlib_text())
    if case.get("clean"):
        for k in list(files):
            if k.startswith("test_"):
                try:
                    files[k] = black.format_str(files[k], mode=mode)
                except Exception:
                    out["discards"]["black-cannot-format-the-generated-file"] = 1
                    return out
    files["pyproject.toml"] = sim.pyproject_for(black=opts)
    if case.get("subdir") is not None:
        files = {(k if k == "pyproject.toml" else "pkg/" + k): v for k, v in files.items()}
        files["pkg/pyproject.toml"] = case["subdir"]
        ctx.count("probe_subpackage_with_own_pyproject")
    cur = sim.to_bytes(files)
    for si, cats in enumerate(case["steps"]):
        flags = ",".join(["report"] + sorted(cats))
        spec = {"flags": flags}
        if case.get("elsewhere"):
            ctx.count("probe_session_started_in_a_neighbouring_project_with_a_format_command")
            spec.update(from_sibling=True, start_pyproject=sim.pyproject_for({"kind": "cmd"}), fmt={"kind": "cmd", "stub": "black", "mode": {"line_length": 33}})
        if case.get("frag_fail"):
            ctx.count("probe_black_fails_for_single_fragments")
            spec["fmt"] = {"kind": "raises", "fragments_at": case["frag_fail"]}
        if case.get("transient"):
            ctx.count("probe_transient_failure_of_black_on_a_whole_file")
            spec["fmt"] = {"kind": "raises", "transient_whole_file": True}
        new, res = sim.run_session(ctx, "plugin", cur, spec)
        if not sim.session_completed("plugin", res):
            out["discards"]["session-did-not-complete(C18)"] = 1
            return out
        ctx.count("clauses_checked")
        for fn in sorted(k for k in cur if k.rsplit("/", 1)[-1].startswith("test_")):
            if new.get(fn) == cur[fn]:
                continue
            old_t, new_t = cur[fn].decode("utf-8"), new[fn].decode("utf-8")
            try:
                was_clean = black.format_str(old_t, mode=mode) == old_t
            except Exception:
                continue
            try:
                osites, nsites = P.find_sites(old_t), P.find_sites(new_t)
            except SyntaxError:
                continue  # C03's statement
            changed = {i for i, (a, b) in enumerate(zip(osites, nsites)) if a.region_text != b.region_text}
            tag = f"{'+'.join(sorted(opts))}|clean={was_clean}|{'+'.join(sorted(cats))}|edits={min(len(changed), 3)}"
            out["abstract"].append(tag)
            if was_clean:
                ctx.count("probe_clean_file_changed")
                try:
                    b1 = black.format_str(new_t, mode=mode)
                except Exception as ex:
                    viol("stays-clean", "black-cannot-format-the-rewritten-file", f"{fn}: {ex}")
                    continue
                if b1 != new_t:
                    b2 = black.format_str(b1, mode=mode)
                    if b2 != b1:
                        ctx.count("black_itself_unstable_on_result")
                        continue
                    import difflib

                    d = "\n".join(list(difflib.unified_diff(new_t.splitlines(), b1.splitlines(), "written", "black(written)", lineterm=""))[:40])
                    viol("stays-clean", "clean-file-not-clean-after-rewrite:" + "+".join(sorted(k for k in opts if k != "line-length")),
                         f"step {si} {fn} flags={flags} [tool.black]={opts}: the file was formatter-clean before the session and is not afterwards\n{d}")
            else:
                ctx.count("probe_unclean_file_changed")
                mo = P.mask_sites(old_t, changed)
                mn = P.mask_sites(c03.strip_imports(new_t, old_t), changed)
                if mo != mn:
                    a, b = mo.decode("utf-8", "replace"), mn.decode("utf-8", "replace")
                    pos = next((i for i, (x, y) in enumerate(zip(a, b)) if x != y), min(len(a), len(b)))
                    viol("unclean-left-alone", "unclean-file-reformatted-outside-changed-arguments",
                         f"step {si} {fn} flags={flags} [tool.black]={opts}: the file was not formatter-clean, yet its layout changed outside the edited arguments (offset {pos})\n"
                         f"--- before\n{a[max(0, pos - 150): pos + 150]!r}\n--- after\n{b[max(0, pos - 150): pos + 150]!r}")
        cur = new
    out["sample"] = {"black": opts, "steps": case["steps"], "clean": case.get("clean"), "file": files[("pkg/" if case.get("subdir") is not None else "") + prog["files"][0]["name"]][:500]}
    return out


def shrink(case):
    if len(case["steps"]) > 1:
        for i in range(len(case["steps"])):
            yield dict(case, steps=case["steps"][:i] + case["steps"][i + 1:])
    for p in W.shrink_program(case["program"]):
        yield dict(case, program=p)
    if case.get("subdir") is not None:
        yield dict(case, subdir=None)
    if case.get("elsewhere"):
        yield dict(case, elsewhere=False)
    if case.get("frag_fail"):
        yield dict(case, frag_fail=None)
    if case.get("transient"):
        yield dict(case, transient=False)
    for k in list(case["black"]):
        b = dict(case["black"])
        del b[k]
        yield dict(case, black=b)
