"""C04 - nothing is written without approval; exactly the approved categories apply.

Real pytest sessions over a project with changes pending in all four categories at once (test files
and storage).  The simulator owns the environment seams: argv, INLINE_SNAPSHOT_DEFAULT_FLAGS,
pyproject default-flags / default-flags-tui / shortcuts with conflicting values in the
lower-precedence sources, tty, review answers, CI variables, PYCHARM_HOSTED, xdist, xfail.
Oracle: a spec function Eff(config) written from the documentation gives the effective approved
set; the tree after the session must equal the tree after the reference session
`--inline-snapshot=<Eff>` on a copy (Eff = {} -> the original tree), byte for byte.
"""
import itertools

from .. import drivers, sim
from ..gen import program as P
from ..gen import values as V
from ..gen import workload as W
from ..prng import sub
from ..world import sha

ID = "C04"
PROBES = ['probe_usage_error_config', 'probe_approve_nothing_config']  # reach probes: counters that must be non-zero in a run (a zero is printed and recorded)
LEVEL = "exploration"
BUDGET = {"quick": 420, "thorough": 9000}
WALL = {"quick": 300, "thorough": 3400}
TECHNIQUE = "deterministic simulation: configuration seams (argv / env / pyproject / tty / answers / CI / xdist / xfail) driven over real pytest sessions; durable state compared with a reference session chosen by a documented-precedence spec function"
LEVEL_TEXT = ("quick: seeded sample of the configuration lattice on three fixed projects and on generated ones; thorough: the lattice on the fixed "
              "projects is enumerated completely (approved subsets x modes x flag sources with conflicting lower-precedence values x answers x "
              "environments), plus a seeded sample on generated projects; every point is a real session whose resulting tree is compared byte for byte")
LEVEL_NOTE = ("trusted: the 40-line spec function Eff (precedence CLI > env var > pyproject, tty selects default-flags-tui, review answers, disabling "
              "conditions) and the reference session (itself validated by C05); *-new.* files and the storage .gitignore are outside the statement")
RULE = ("one run = (project, configuration); the session's tree (test files, pyproject.toml, persisted externals) must equal the tree of the reference "
        "session with exactly Eff(configuration) approved on the command line; invalid combinations must be usage errors that change nothing; "
        "distinct = (Eff, mode, flag source, environment, answers) tuples x outcome class; non-trivial = configuration with a pending change in every category")
RULE += " Dimensions added while testing against seeded changes: reference-free clause: a reference to outsourced data written by an approved create / fix has its data persisted (the reference session runs the same code); projects that redefine the built-in shortcuts --fix / --review; reference-free clause: an approved create / fix is no longer pending in a report session on the outcome; two-file projects whose last file has nothing to fix."
ASSUMPTIONS = ["xdist sessions are sampled (1.8 s each)", "with all tests xfail the storage is not compared when trim is approved (no test file takes part, see C13 S4)"]
REAL_VS_STUB = {
    "real": ["pytest", "inline_snapshot plugin + library from /repo/src", "os.environ / argv / pyproject.toml read by the real code", "xdist workers (sample)", "black"],
    "stub": ["review answers (Confirm.ask answered from the scripted per-category map)", "the user"],
}
CATS = ["create", "fix", "trim", "update"]
MODES = ["none", "report", "review", "short-report", "disable"]
CI_VARS = drivers.CI_VARS

OLD_EXT = b"old external data"
PROJECTS = {
    "p1": {"test_a.py": '''from inline_snapshot import snapshot, outsource, external


def test_a():
    assert 1 == snapshot()
    assert 2 == snapshot(3)
    assert 5 <= snapshot(9)
    assert 2 == snapshot(1 + 1)
    assert 7 in snapshot([7, 8])
    assert outsource("new data") == snapshot()
'''},
    "p2": {"test_a.py": '''from inline_snapshot import snapshot


def test_a():
    s = snapshot({"k": 1, "unused": 2})
    assert 1 == s["k"]
    assert 3 == s["new"]
    assert [1, 5] == snapshot([1, 0 + 2])
''', "test_b.py": '''from inline_snapshot import snapshot, outsource, external

S = snapshot()


def test_b1():
    assert "x" >= S


def test_b2():
    assert "a" >= S
    assert outsource(b"bytes") == snapshot(external("0000aaaa*.bin"))
    assert 4 >= snapshot(2)
'''},
    "p3": {"test_a.py": '''from inline_snapshot import snapshot
from dataclasses import dataclass


@dataclass
class A:
    a: int
    b: int = 5


def helper(v, s):
    assert v == s


def test_a():
    helper(A(a=1), snapshot(A(a=2, b=5)))
    for i in (3, 1, 2):
        assert i <= snapshot(7)
    assert "b" in snapshot(["a"])
    assert {"x": [1, 2]} == snapshot()
'''},
}


PROJECTS["p4"] = {"test_a.py": '''from inline_snapshot import snapshot


def test_a():
    assert 1 == snapshot()
    assert 2 == snapshot(3)
    assert 7 in snapshot([7, 8])
''', "test_b.py": '''from inline_snapshot import snapshot


def test_b():
    assert 5 == snapshot()
'''}
PROJECTS["p5"] = {"test_a.py": PROJECTS["p4"]["test_b.py"].replace("test_b", "test_a"), "test_b.py": PROJECTS["p4"]["test_a.py"].replace("test_a", "test_b")}


def project_files(name):
    files = dict(PROJECTS[name])
    files[f".inline-snapshot/external/{sha(OLD_EXT)}.txt"] = OLD_EXT
    return files


def eff(cfg):
    """-> ("usage-error" | "ok", approved set) from the documentation (docs/pytest.md, docs/configuration.md)"""
    cli = cfg.get("cli")
    if cfg.get("shortcut"):
        sc = cfg.get("shortcuts") or {"fix": ["create", "fix"], "review": ["review"]}
        cli = ",".join(sc[cfg["shortcut"]])
    if cli is not None:
        flags = {f for f in cli.split(",") if f}
    elif cfg.get("envvar") is not None:
        flags = set(cfg["envvar"].split(","))
    elif cfg.get("tty"):
        flags = set(cfg["default_flags_tui"] if cfg.get("default_flags_tui") is not None else ["create", "review"])
    else:
        flags = set(cfg["default_flags"] if cfg.get("default_flags") is not None else ["report"])
    cfg["_flags"] = sorted(flags)
    xdist = bool(cfg.get("xdist"))
    if cli is not None and xdist and flags - {"disable"}:
        return "usage-error", set()
    if flags - set(CATS) - {"disable", "review", "report", "short-report"}:
        return "usage-error", set()
    if "disable" in flags and flags != {"disable"}:
        return "usage-error", set()
    ci = cfg.get("ci") and not cfg.get("pycharm")
    if xdist or ci or "disable" in flags:
        return "ok", set()
    if cfg.get("xfail_all"):
        return "ok", set()
    if "short-report" in flags:
        return "ok", set()
    approved = flags & set(CATS)
    if "review" in flags:
        approved |= {c for c in CATS if (cfg.get("answers") or {}).get(c)}
    if cfg.get("skip_updates") and "update" not in flags:
        # skip-snapshot-updates-for-now: updates are hidden (not shown, not offered) unless update is given as a flag
        approved.discard("update")
    return "ok", approved


def lattice():
    """the configuration lattice on the fixed projects (thorough tier enumerates it completely)"""
    out = []
    subsets = [list(c) for n in range(5) for c in itertools.combinations(CATS, n)]
    for proj in PROJECTS:
        # approved subset x mode, on the command line
        for a in subsets:
            for mode in MODES:
                fl = ([mode] if mode != "none" else []) + a
                if not fl:
                    out.append({"project": proj})
                    continue
                answers_list = [None] if mode != "review" else [{}, {c: True for c in CATS}, {"create": True, "trim": True}, {"fix": True, "update": True}]
                for ans in answers_list:
                    out.append({"project": proj, "cli": ",".join(fl), "answers": ans})
        # sources with conflicting lower-precedence values
        for a in subsets[1:]:
            fl = ",".join(a)
            other = ",".join(c for c in CATS if c not in a) or "report"
            out.append({"project": proj, "envvar": fl, "default_flags": other.split(",")})
            out.append({"project": proj, "cli": fl, "envvar": other, "default_flags": other.split(",")})
            out.append({"project": proj, "default_flags": a, "default_flags_tui": other.split(",")})
            out.append({"project": proj, "default_flags": other.split(","), "default_flags_tui": a, "tty": True})
            out.append({"project": proj, "default_flags_tui": a, "tty": True})
            out.append({"project": proj, "default_flags_tui": a})
            out.append({"project": proj, "default_flags": a, "tty": True, "answers": {"fix": True}})
            out.append({"project": proj, "shortcut": "sc", "shortcuts": {"sc": a}, "envvar": other})
            out.append({"project": proj, "envvar": "report," + fl, "default_flags": ["short-report"]})
            out.append({"project": proj, "envvar": "short-report," + fl})
        for fl in ("review", "report,update", "review,update", "update", "report", "create,fix,trim", "fix,update", "create,fix,trim,update"):
            out.append({"project": proj, "cli": fl, "skip_updates": True, "answers": {c: True for c in CATS}})
        out.append({"project": proj, "shortcut": "fix"})
        out.append({"project": proj, "shortcut": "fix", "shortcuts": {"fix": ["fix"]}})
        out.append({"project": proj, "shortcut": "review", "shortcuts": {"review": ["trim", "update"], "fix": ["create"]}})
        out.append({"project": proj, "shortcut": "review", "answers": {"create": True}})
        out.append({"project": proj, "tty": True, "answers": {"create": True, "fix": True}})
        out.append({"project": proj, "tty": True, "answers": {}})
        # environments that disable
        for var in CI_VARS:
            out.append({"project": proj, "cli": "create,fix,trim,update", "ci": var})
            out.append({"project": proj, "envvar": "create,fix", "ci": var})
        out.append({"project": proj, "cli": "create,fix,trim,update", "ci": "TEAMCITY_VERSION", "pycharm": True})
        out.append({"project": proj, "default_flags": ["fix", "trim"], "ci": "CI", "pycharm": True})
        out.append({"project": proj, "cli": "create,fix,trim,update", "xfail_all": True})
        out.append({"project": proj, "cli": "review", "answers": {c: True for c in CATS}, "xfail_all": True})
        out.append({"project": proj, "envvar": "create,fix,trim,update", "xdist": 2})
        out.append({"project": proj, "cli": "fix", "xdist": 2})
        out.append({"project": proj, "cli": "disable", "xdist": 2})
        out.append({"project": proj, "cli": "create,fix,trim,update", "xdist": 0})
        # invalid combinations
        out.append({"project": proj, "cli": "disable,fix"})
        out.append({"project": proj, "cli": "fix,bogus"})
        out.append({"project": proj, "envvar": "creat"})
        out.append({"project": proj, "default_flags": ["disable", "trim"]})
    return out


def random_config(rng, project):
    cfg = {"project": project}
    a = [c for c in CATS if rng.random() < 0.5]
    mode = rng.choice(MODES + ["none", "none", "review"])
    fl = ([mode] if mode != "none" else []) + a
    src = rng.choice(["cli", "cli", "envvar", "default_flags", "tui", "shortcut"])
    other = [c for c in CATS if rng.random() < 0.5] or ["report"]
    if not fl:
        fl = ["report"]
    if src == "cli":
        cfg["cli"] = ",".join(fl)
        if rng.random() < 0.5:
            cfg["envvar"] = ",".join(other)
        if rng.random() < 0.5:
            cfg["default_flags"] = other
    elif src == "envvar":
        cfg["envvar"] = ",".join(fl)
        if rng.random() < 0.7:
            cfg["default_flags"] = other
        if rng.random() < 0.3:
            cfg["default_flags_tui"] = other
            cfg["tty"] = rng.random() < 0.5
    elif src == "default_flags":
        cfg["default_flags"] = fl
        if rng.random() < 0.5:
            cfg["default_flags_tui"] = other
    elif src == "tui":
        cfg["default_flags_tui"] = fl
        if rng.random() < 0.5:
            cfg["default_flags"] = other  # (else: the project configures the terminal default only)
        cfg["tty"] = True
    else:
        # (a project may give the built-in shortcut names --fix / --review another meaning, docs/configuration.md)
        name = rng.choice(["sc", "sc", "fix", "review"])
        cfg["shortcut"] = name
        cfg["shortcuts"] = {name: fl, "other": other}
        if rng.random() < 0.5:
            cfg["envvar"] = ",".join(other)
    if "review" in fl or cfg.get("tty"):
        cfg["answers"] = {c: rng.random() < 0.5 for c in CATS}
    if rng.random() < 0.12:
        cfg["skip_updates"] = True
    r = rng.random()
    if r < 0.12:
        cfg["ci"] = rng.choice(CI_VARS)
        if rng.random() < 0.3:
            cfg["pycharm"] = True
    elif r < 0.18:
        cfg["xfail_all"] = True
    elif r < 0.21:
        cfg["xdist"] = 2
    return cfg


def generate(seed, tier="quick"):
    i = seed % 10**6
    rng = sub(seed, "config")
    if tier == "thorough":
        lat = lattice()
        if i < len(lat):
            return {"config": lat[i], "lattice_index": i, "lattice_size": len(lat)}
    if rng.random() < 0.75:
        lat = lattice()
        if rng.random() < 0.5:
            return {"config": lat[rng.randrange(len(lat))]}
        return {"config": random_config(rng, rng.choice(sorted(PROJECTS)))}
    prof = V.draw_profile(sub(seed, "profile"), max_depth=2)
    prof.special = [s for s in prof.special if s != "norepr"]
    prog = W.gen_program(sub(seed, "program"), prof, {"prev": ["none", "same", "wrong", "other", "slack", "subset", "superset", "edit"], "n_sites": (2, 5),
                                                      "n_tests": (1, 3), "styles": ["assert", "rec"], "hand": 0.5})
    return {"config": random_config(rng, None), "program": prog}


def build(case):
    cfg = case["config"]
    if case.get("program") is not None:
        files, _ = P.render(case["program"], drivers.simlib_text())
        files[f".inline-snapshot/external/{sha(OLD_EXT)}.txt"] = OLD_EXT
    else:
        files = project_files(cfg["project"])
    if cfg.get("xfail_all"):
        for k in list(files):
            if k.startswith("test_") and isinstance(files[k], str):
                files[k] = "import pytest\npytestmark = pytest.mark.xfail\n" + files[k]
    tool = {}
    if cfg.get("default_flags") is not None:
        tool["default-flags"] = cfg["default_flags"]
    if cfg.get("default_flags_tui") is not None:
        tool["default-flags-tui"] = cfg["default_flags_tui"]
    if cfg.get("skip_updates"):
        tool["skip-snapshot-updates-for-now"] = True
    py = ""
    if tool:
        py += sim.pyproject_for(tool=tool)
    if cfg.get("shortcuts"):
        py += "\n[tool.inline-snapshot.shortcuts]\n" + "".join(f"{k} = {sim.toml_value(v)}\n" for k, v in cfg["shortcuts"].items())
    files["pyproject.toml"] = py
    env = {}
    if cfg.get("envvar") is not None:
        env["INLINE_SNAPSHOT_DEFAULT_FLAGS"] = cfg["envvar"]
    if cfg.get("ci"):
        env[cfg["ci"]] = "true"
    if cfg.get("pycharm"):
        env["PYCHARM_HOSTED"] = "1"
    if cfg.get("tty"):
        env["FORCE_COLOR"] = "true"
    argv = list(cfg.get("argv") or [])
    if cfg.get("shortcut"):
        argv.append("--" + cfg["shortcut"])
    spec = {"flags": cfg.get("cli"), "env": env, "answers": cfg.get("answers"), "argv": argv}
    if cfg.get("xdist") is not None:
        spec["xdist"] = cfg["xdist"]
    return files, spec


def has_module_level_snapshot(src):
    import ast

    try:
        tree = ast.parse(src)
    except (SyntaxError, ValueError):
        return True
    for node in tree.body:
        if isinstance(node, (ast.FunctionDef, ast.AsyncFunctionDef, ast.ClassDef, ast.Import, ast.ImportFrom)):
            # lambdas / defaults evaluated at import are rare enough to ignore; function bodies run inside tests
            if isinstance(node, ast.FunctionDef) and any(isinstance(n, ast.Call) and getattr(n.func, "id", "") == "snapshot" for d in node.args.defaults for n in ast.walk(d)):
                return True
            continue
        for n in ast.walk(node):
            if isinstance(n, ast.Lambda):
                continue
            if isinstance(n, ast.Call) and isinstance(n.func, ast.Name) and n.func.id == "snapshot":
                # inside a lambda body it is not evaluated at import
                if not any(isinstance(p, ast.Lambda) and n in ast.walk(p) for p in ast.walk(node)):
                    return True
    return False


def judged_tree(tree):
    out = {}
    for k, v in tree.items():
        base = k.rsplit("/", 1)[-1]
        if k.startswith(".inline-snapshot/external/") and ("-new." in base or base == ".gitignore"):
            continue
        if k == "simlib.py" or k.endswith(".pyc"):
            continue
        out[k] = v
    return out


def execute(case, ctx):
    cfg = case["config"]
    out = {"violations": [], "discards": {}, "abstract": []}
    cfg = dict(cfg)
    files, spec = build(case)
    files = sim.to_bytes(files)
    kind, approved = eff(cfg)
    new, res = sim.run_session(ctx, "plugin", files, spec, timeout=90)
    if res.get("status") != "ok":
        out["discards"]["session-process-died"] = 1
        return out
    if kind == "ok" and "review" in (cfg.get("_flags") or []) and approved:
        # "a 'y' answer for that category in review mode": a scripted answer counts only if the prompt for that category appeared
        asked_yes = {c for c, a in (res.get("asked") or []) if a}
        approved = (set(cfg["_flags"]) & set(CATS)) | (approved & asked_yes)
    tag = f"eff={'+'.join(sorted(approved)) or '-'}|{kind}|src={'cli' if cfg.get('cli') or cfg.get('shortcut') else 'env' if cfg.get('envvar') is not None else 'tui' if cfg.get('tty') else 'pyproject'}" \
          f"|env={'ci' if cfg.get('ci') else ''}{'+pycharm' if cfg.get('pycharm') else ''}{'xdist' if cfg.get('xdist') else ''}{'xfail' if cfg.get('xfail_all') else ''}{'tty' if cfg.get('tty') else ''}" \
          f"|ans={'+'.join(sorted(k for k, v in (cfg.get('answers') or {}).items() if v))}|{'gen' if case.get('program') else cfg.get('project')}"
    ctx.count("clauses_checked")
    if case.get("lattice_index") is not None:
        ctx.count("lattice_points_enumerated")  # thorough tier: 864 = the whole fixed-project lattice (len(lattice()))
    got = judged_tree(new)
    orig = judged_tree(files)

    def viol(clause, sig, detail):
        out["violations"].append({"clause": clause, "sig": sig, "detail": detail})

    def diff_desc(a, b):
        ks = sorted(k for k in set(a) | set(b) if a.get(k) != b.get(k))
        d = []
        for k in ks[:3]:
            d.append(f"--- {k}: expected\n{(a.get(k) or b'<absent>').decode('utf-8', 'replace')[:500]}\n--- {k}: found\n{(b.get(k) or b'<absent>').decode('utf-8', 'replace')[:500]}")
        return ks, "\n".join(d)

    if kind == "usage-error":
        ctx.count("probe_usage_error_config")
        out["abstract"].append(tag + "|usage")
        if res.get("rc") != 4:
            viol("usage-error", "invalid-flag-combination-accepted", f"config {cfg}: expected a usage error, rc={res.get('rc')}\n{res.get('out', '')[-800:]}")
        if got != orig:
            ks, d = diff_desc(orig, got)
            viol("no-write-without-approval", "files-changed-by-invalid-configuration", f"config {cfg}: changed {ks}\n{d}")
        return out
    if not sim.session_completed("plugin", res):
        if approved:
            out["violations"].append(sim.completion_violation("plugin", res, f"config {cfg}"))
        else:
            out["discards"]["session-did-not-complete(C18)"] = 1
        return out
    if not approved:
        ctx.count("probe_approve_nothing_config")
        exp = orig
    else:
        # the reference session approves exactly Eff on the command line; in review mode every comparison is made to succeed (the whole
        # test body runs, more snapshots are reached), so the reference of a review session is a review session answered with exactly Eff
        review_mode = "review" in (cfg.get("_flags") or [])
        by_flag = approved & set(cfg.get("_flags") or [])
        rfiles, rspec = build({"config": {"project": cfg.get("project"), "cli": ",".join(["review"] + sorted(by_flag)) if review_mode else ",".join(sorted(approved)),
                                          "answers": {c: True for c in approved - by_flag} if review_mode else None,
                                          "default_flags": cfg.get("default_flags"), "default_flags_tui": cfg.get("default_flags_tui"),
                                          "shortcuts": cfg.get("shortcuts"), "skip_updates": False}, "program": case.get("program")})
        # (the reference project does not hide updates: whether the option lets an explicitly approved update through is part of what is checked)
        rnew, rres = sim.run_session(ctx, "plugin", rfiles, rspec, timeout=90)
        if not sim.session_completed("plugin", rres):
            out["discards"]["reference-session-did-not-complete(C18)"] = 1
            return out
        exp = judged_tree(rnew)
    if cfg.get("skip_updates"):
        got = {k: v for k, v in got.items() if k != "pyproject.toml"}
        exp = {k: v for k, v in exp.items() if k != "pyproject.toml"}
    if cfg.get("xfail_all"):
        # no test file takes part in the session, so with trim approved every external counts as unused (C13 S4): storage not compared here
        got = {k: v for k, v in got.items() if not k.startswith(".inline-snapshot/")}
        exp = {k: v for k, v in exp.items() if not k.startswith(".inline-snapshot/")}
        # a snapshot() evaluated at module level runs at import time, outside any (xfail) test, with the session's active state:
        # whether "tests marked xfail" covers it is not decided by the statement -> such files are not judged here
        for k in [k for k in got if k.startswith("test_") and has_module_level_snapshot(orig.get(k, b""))]:
            got.pop(k, None)
            exp.pop(k, None)
    changed_cls = "changed" if got != orig else "unchanged"
    out["abstract"].append(tag + "|" + changed_cls)
    # ---- independent of the reference session (which runs the same code): a reference to outsourced data that an approved create / fix wrote
    #      into a test file is a change that was applied - the data it names is then persisted (exactly one stored file, named by its sha256)
    if approved & {"create", "fix"}:
        import hashlib

        from . import c13

        for fn in sorted(k for k in got if k.rsplit("/", 1)[-1].startswith("test_") and k.endswith(".py")):
            before_refs = {r[3] for r in c13.references(orig.get(fn, b"").decode("utf-8", "replace"))}
            for r in c13.references(got[fn].decode("utf-8", "replace")):
                if r[3] in before_refs:
                    continue
                ctx.count("probe_reference_to_outsourced_data_written")
                stored = [k for k in got if k.startswith(".inline-snapshot/external/") and c13.ref_matches(r, k.rsplit("/", 1)[-1])]
                if len(stored) != 1 or not stored[0].rsplit("/", 1)[-1].startswith(hashlib.sha256(got[stored[0]]).hexdigest()):
                    viol("exactly-approved", "approved-reference-written-without-its-persisted-data",
                         f"config {cfg}\n  effective approved set (spec) = {sorted(approved)}: {fn} now contains external({r[3]!r}) but the storage holds {sorted(k for k in got if k.startswith('.inline-snapshot/'))}")
    if got != exp:
        ks, d = diff_desc(exp, got)
        only_storage = all(k.startswith(".inline-snapshot/") for k in ks)
        review = "review" in (cfg.get("_flags") or [])
        if not approved:
            sig = "write-without-approval:" + ("storage" if only_storage else "test-file") + (":review-mode" if review and only_storage else "")
            clause = "no-write-without-approval"
        else:
            sig = "outcome-differs-from-exactly-approved:" + ("storage" if only_storage else "test-file") + (":review-mode" if review and only_storage else "")
            clause = "exactly-approved"
        viol(clause, sig, f"config {cfg}\n  effective approved set (spec) = {sorted(approved)}; files differing from the reference outcome: {ks}\n{d}\n--- session output\n{res.get('out', '')[-1200:]}")
    # ---- independent of the reference session: an approved create / fix is applied to EVERY file - a plain report session on the outcome no longer
    #      lists that category (the reference session runs the same approval loop and would share a dropped category)
    if approved & {"create", "fix"} and not cfg.get("xfail_all") and case.get("followup", True):
        fnew, fres = sim.run_session(ctx, "plugin", {k: v for k, v in new.items() if not k.endswith(".pyc")}, {"flags": "report"}, timeout=90)
        if fres.get("status") == "ok" and sim.session_completed("plugin", fres):
            ctx.count("probe_follow_up_report_session")
            still = sorted(set(drivers.report_categories(fres.get("out", ""))) & approved & {"create", "fix"})
            if still:
                viol("exactly-approved", "approved-category-still-pending-after-the-session:" + "+".join(still),
                     f"config {cfg}\n  effective approved set (spec) = {sorted(approved)}, but a report session on the outcome still lists {still}\n--- session output\n{res.get('out', '')[-1500:]}")
    # ---- the same session through the real prompt (rich.prompt.Confirm reading stdin): same outcome as through the scripted answers
    if "review" in (cfg.get("_flags") or []) and res.get("asked") and case.get("real_stdin", True) and not cfg.get("xdist"):
        import random

        rr = random.Random(len(res["asked"]) * 7 + len(str(cfg)))
        lines = []
        for cat, ans in res["asked"]:
            lines.append(rr.choice(["y", "Y", " y "]) if ans else rr.choice(["n", "", "N"]))  # Enter = default = no
        spec2 = dict(spec, real_stdin="\n".join(lines) + "\n" + "n\n" * 6)
        new2, res2 = sim.run_session(ctx, "plugin", files, spec2, timeout=90)
        if res2.get("status") == "ok" and sim.session_completed("plugin", res2):
            ctx.count("probe_real_prompt_session")
            got2 = judged_tree(new2)
            ref2 = judged_tree(new)
            if cfg.get("xfail_all"):
                got2 = {k: v for k, v in got2.items() if not k.startswith(".inline-snapshot/")}
                ref2 = {k: v for k, v in ref2.items() if not k.startswith(".inline-snapshot/")}
            if got2 != ref2:
                ks, d = diff_desc(ref2, got2)
                viol("review-answers", "typed-answers-differ-from-scripted-answers", f"config {cfg}: typed answers {lines} for prompts {res['asked']}: files {ks} differ from the outcome of the same answers given through the scripted prompt\n{d}\n{res2.get('out', '')[-800:]}")
    out["sample"] = {"config": cfg, "eff": sorted(approved), "outcome": changed_cls}
    return out


def shrink(case):
    cfg = case["config"]
    for k in list(cfg):
        if k in ("project",):
            continue
        c = dict(cfg)
        del c[k]
        yield dict(case, config=c)
    if cfg.get("answers"):
        for k in cfg["answers"]:
            if cfg["answers"][k]:
                c = dict(cfg, answers=dict(cfg["answers"], **{k: False}))
                yield dict(case, config=c)
    for key in ("cli", "envvar"):
        if cfg.get(key) and "," in cfg[key]:
            parts = cfg[key].split(",")
            for i in range(len(parts)):
                yield dict(case, config=dict(cfg, **{key: ",".join(parts[:i] + parts[i + 1:])}))
    if case.get("program") is not None:
        for p in W.shrink_program(case["program"]):
            yield dict(case, program=p)
