"""C09 - the order in which categories are approved does not matter.

Histories: for a program with k >= 2 categories pending, all k! orders of single-category sessions
over the durable project directory versus one combined session.  Oracle: identical syntax tree of
every test file (hence identical snapshot values).  Most programs use non-aborting events (rec
style): with `assert`, a run that approves only trim aborts at the first failing comparison and
never *reaches* later snapshots, which changes the observation set, not the confluence.  A share of
the programs uses `assert` with == snapshots only (create / fix / update: a session that approves
any of these lets every comparison pass, so every order reaches every snapshot); such a program is
discarded when trim turns out to be pending.
"""
import ast
import itertools

from .. import drivers, sim
from ..gen import program as P
from ..gen import values as V
from ..gen import workload as W
from ..prng import sub
from .c01 import draw_fmt, fmt_tag

ID = "C09"
PROBES = ['orders_executed']  # reach probes: counters that must be non-zero in a run (a zero is printed and recorded)
LEVEL = "exploration"
BUDGET = {"quick": 320, "thorough": 4000}
WALL = {"quick": 300, "thorough": 3400}
TECHNIQUE = "deterministic simulation: all k! orders of single-category sessions over a durable project directory versus the combined session (session histories as the schedule)"
LEVEL_TEXT = ("seeded search over programs with >= 2 categories pending on shared nodes; per program every order of single-category sessions (k! <= 24 "
              "histories of k sessions) and the all-at-once session are executed and the final syntax trees compared; sampling of programs, exhaustive over orders")
LEVEL_NOTE = "trusted: ast.dump equality as 'same final program'; rec-style events only (see module docstring)"
RULE = ("one run = program (1-4 sites; fix next to update in one container, deletes next to inserts in one list / dict / call, create of a key next to "
        "trim of a key, hand-styled previous content) -> pending set P from the reported categories -> |P|! histories + combined session; distinct = "
        "(P, operation, shared-node shape); non-trivial = |P| >= 2")
RULE += " Dimensions added while testing against seeded changes: a fix that keeps the file size next to a pending update (real-plugin histories over one persistent directory with bytecode caches); projects that hide updates; files needing both tool imports; the all-at-once session dying while one-at-a-time completes is a confluence violation; fixed values written in parentheses in front of an argument that update deletes; an order that dies where approving together completes is a confluence violation."
ASSUMPTIONS = ["events are non-aborting, or `assert` on == snapshots with no trim pending (every single-category session then reaches every snapshot)", "programs whose sessions do not complete are discarded (C18)"]
REAL_VS_STUB = {
    "real": ["inline_snapshot library from /repo/src", "Example.run_inline (bulk)", "pytest + plugin (sample)", "black"],
    "stub": ["the user (order of approvals)", "formatter states"],
}
CATS = ["create", "fix", "trim", "update"]
MIN_BUDGET = 25


def generate(seed, tier="quick"):
    rng = sub(seed, "program")
    prof = V.draw_profile(sub(seed, "profile"), max_depth=2)
    prof.special = [s for s in prof.special if s not in ("norepr", "complex")]
    asserts = sub(seed, "asserts").random() < 0.3
    if asserts:
        prog = W.gen_program(rng, prof, {"prev": ["edit", "edit", "wrong", "other", "none", "same", "same"], "n_files": (1, 2), "n_sites": (2, 5),
                                         "n_tests": (1, 2), "styles": ["assert", "assert", "rec"], "hand": 0.8, "ops": ["eq"]})
    else:
        prog = W.gen_program(rng, prof, {"prev": ["edit", "edit", "superset", "subset", "slack", "wrong", "other", "none", "same"], "n_files": (1, 2), "n_sites": (1, 4),
                                         "n_tests": (1, 2), "styles": ["rec"], "hand": 0.7, "ops": ["eq", "eq", "in", "in", "item", "le", "ge"], "idle": 0.2})
    # unused + hand-written elements in `in` lists and dict sub-snapshots (trim next to update)
    xr = sub(seed, "extra")
    for f in prog["files"]:
        for sid, s in f["sites"].items():
            if s["op"] == "in" and s["prev"] is not None and xr.random() < 0.6:
                extra = [f"{xr.randint(0, 5)} + {xr.randint(50, 60)}", f"0x{xr.randint(100, 200):x}", f"'u{xr.randint(0, 9)}'"][: xr.randint(1, 3)]
                items = [P.hand_render(x, xr, 0.6) for x in s["prev"][1]]
                for e in extra:
                    items.insert(xr.randint(0, len(items)), e)
                s["arg"] = "[" + ", ".join(items) + "]"
    driver = "plugin" if sub(seed, "driver").random() < 0.3 else "inline"
    # the project hides updates unless they are asked for (skip-snapshot-updates-for-now): every session of these histories names its categories
    skip_updates = driver == "plugin" and sub(seed, "skip-updates").random() < 0.35
    irng = sub(seed, "imports")
    if driver == "plugin" and irng.random() < 0.35:
        # one file needs two new imports (external, HasRepr), brought in by changes of different categories
        from . import c13

        f = sorted(prog["files"], key=lambda f: f["name"])[0]
        f["sites"]["xa"] = {"op": "eq", "place": "direct", "arg": None, "prev": None}
        f["sites"]["nr"] = {"op": "eq", "place": "direct", "arg": irng.choice(["0", "[1]", None]), "prev": None}
        t = irng.choice(f["tests"])
        t["events"].append({"t": "cmp", "eid": "exa", "site": "xa", "vals": [c13.wrap(irng, c13.ext_value(irng))], "style": "rec"})
        t["events"].append({"t": "cmp", "eid": "enr", "site": "nr", "vals": [["norepr", irng.randint(1, 5)]], "style": "rec"})
    prng_ = sub(seed, "parenthesised-kwarg")
    if prng_.random() < 0.12:
        # a constructor call whose kept keyword argument is written in parentheses, directly in front of an argument that update deletes (it holds its
        # default) or that fix inserts
        f = sorted(prog["files"], key=lambda f: f["name"])[0]
        arg, val = prng_.choice([("DC(a=(5), b=None)", "DC(a=7)"), ("DC(a=5, b=None)", "DC(a=3 + 4j)"), ("DC(a=5, b=None)", "DC(a=3 + 4j)"), ("DC(a=(5), c=[])", "DC(a=5, b=2)"), ("DCD(x=1, y='y')", "DCD(x=1 + 2j)")])
        # (a complex value is the one the tool itself writes in parentheses: the fix session creates the parenthesised argument the update session then has to step around)
        f["sites"]["pk"] = {"op": "eq", "place": "direct", "arg": arg, "prev": ["raw", arg]}
        prng_.choice(f["tests"])["events"].append({"t": "cmp", "eid": "epk", "site": "pk", "vals": [["raw", val]], "style": "rec"})
    zrng = sub(seed, "samesize")
    if zrng.random() < 0.15:
        # a fix that keeps the size of the file (two elements change places) next to a pending update in the same list: the session that follows
        # the fix session in the same directory must execute the rewritten source, not a cached compilation of the old one
        driver = "plugin"
        a, b = zrng.sample(range(1, 10), 2)
        c, d = zrng.randint(1, 4), zrng.randint(1, 4)
        f = sorted(prog["files"], key=lambda f: f["name"])[0]
        f["sites"]["zs"] = {"op": "eq", "place": "direct", "arg": f"[{a}, {b}, {c} + {d}]", "prev": ["list", [["int", a], ["int", b], ["int", c + d]]]}
        zrng.choice(f["tests"])["events"].append({"t": "cmp", "eid": "ezs", "site": "zs", "vals": [["list", [["int", b], ["int", a], ["int", c + d]]]], "style": "rec"})
    W.sprinkle_uni(prog, sub(seed, "uni"), 0.1)
    return {"program": prog, "driver": driver, "asserts": asserts, "skip_updates": skip_updates, "fmt": draw_fmt(sub(seed, "fmt")), "max_orders": 6 if tier == "quick" else 24}


def trees(files, sort_inserted_imports=False):
    out = {}
    for k, v in files.items():
        if k.startswith("test_"):
            try:
                tree = ast.parse(v.decode("utf-8") if isinstance(v, bytes) else v)
                if sort_inserted_imports:
                    own = [i for i, n in enumerate(tree.body) if isinstance(n, ast.ImportFrom) and n.module == "inline_snapshot"
                           and {a.name for a in n.names} <= {"external", "HasRepr"}]
                    nodes = sorted((tree.body[i] for i in own), key=lambda n: n.names[0].name)
                    for i, n in zip(own, nodes):
                        tree.body[i] = n
                out[k] = ast.dump(tree)
            except SyntaxError as ex:
                out[k] = f"SYNTAX-ERROR {ex}"
    return out


def execute(case, ctx):
    ctx.persistent = True  # plugin sessions of this history share one directory incl. __pycache__ (logical clock for mtimes, see sim.sync_tree)
    prog, driver, fmt = case["program"], case["driver"], case["fmt"]
    out = {"violations": [], "discards": {}, "abstract": []}
    files, orders = P.render(prog, drivers.simlib_text())
    if driver == "plugin":
        files["pyproject.toml"] = sim.pyproject_for(fmt, tool={"skip-snapshot-updates-for-now": True} if case.get("skip_updates") else None)
        if case.get("skip_updates"):
            ctx.count("probe_project_hides_updates")
    s0 = sim.to_bytes(files)

    def flags(cats):
        return ",".join((["report"] if driver == "plugin" else []) + sorted(cats)) or None

    def ok(res):
        return sim.session_completed(driver, res) and not (driver == "inline" and res.get("raises"))

    # pending set from a probe session that approves nothing (programs with aborting events: from a session that approves everything on a scratch
    # copy, because a failing assert hides what follows it from a session that approves nothing)
    _, r0 = sim.run_session(ctx, driver, s0, {"flags": flags(CATS if case.get("asserts") or case.get("skip_updates") else []), "fmt": fmt})
    if not ok(r0):
        out["discards"]["probe-session-did-not-complete(C18)"] = 1
        return out
    pend = sorted(r0.get("categories") or []) if driver == "inline" else drivers.report_categories(r0.get("out", ""))
    if case.get("skip_updates") and "update" not in pend:
        # what is pending must not be taken from one kind of session only: ask a session that names nothing but update
        _, ru = sim.run_session(ctx, driver, s0, {"flags": flags(["update"]), "fmt": fmt})
        if ok(ru) and "update" in drivers.report_categories(ru.get("out", "")):
            pend = sorted(set(pend) | {"update"})
    if len(pend) < 2:
        out["discards"]["fewer-than-two-categories-pending"] = 1
        return out
    if case.get("asserts"):
        if "trim" in pend:
            out["discards"]["aborting-events-with-trim-pending"] = 1
            return out
        ctx.count("probe_program_with_aborting_events")
    comb, rc = sim.run_session(ctx, driver, s0, {"flags": flags(pend), "fmt": fmt})
    if not ok(rc):
        if sim.session_completed(driver, rc):
            out["discards"]["combined-session-did-not-complete(C18)"] = 1
            return out
        # the session that approves everything together died at session end (nothing written).  If approving the same categories one at a time
        # goes through, the two ways do not lead to the same program: that is this property's business, not only C18's
        cur, good = s0, True
        for c in pend:
            cur, r = sim.run_session(ctx, driver, cur, {"flags": flags([c]), "fmt": fmt})
            if not sim.session_completed(driver, r):
                good = False
                break
        if good and trees(cur) != trees(s0):
            cv = sim.completion_violation(driver, rc, f"pending={pend}")
            out["violations"].append({"clause": "confluence", "sig": "together-dies-where-one-at-a-time-completes:" + cv["sig"].split(":", 1)[1],
                                      "detail": f"driver={driver} fmt={fmt_tag(fmt)}: approving {pend} together ends in an internal error (nothing is written), approving them one at a time ({' then '.join(pend)}) completes\n"
                                                + cv["detail"][-1500:] + "\n--- before\n" + s0[sorted(k for k in s0 if k.startswith('test_'))[0]].decode('utf-8', 'replace')[:900]})
        else:
            out["discards"]["combined-session-did-not-complete(C18)"] = 1
        return out
    want = trees(comb)
    perms = list(itertools.permutations(pend))
    if len(perms) > case.get("max_orders", 24):
        rng = sub(len(perms), "orders" + ",".join(pend))
        rng.shuffle(perms)
        perms = perms[: case["max_orders"]]
    ctx.count("clauses_checked")
    ops = sorted({s["op"] for f in prog["files"] for s in f["sites"].values()})
    out["abstract"].append(f"{'+'.join(pend)}|{'+'.join(ops)}|{fmt_tag(fmt)}")
    for order in perms:
        cur = s0
        good = True
        for c in order:
            cur, r = sim.run_session(ctx, driver, cur, {"flags": flags([c]), "fmt": fmt})
            # (a test of a program with aborting events may fail in a single-category session; the history simply goes on with the next category)
            if not (sim.session_completed(driver, r) if case.get("asserts") else ok(r)):
                good = False
                break
        if not good:
            if not sim.session_completed(driver, r):
                # approving together completed, this order dies on the way (nothing more is written): it does not reach the same program
                cv = sim.completion_violation(driver, r, f"order {'>'.join(order)}, session {c}")
                out["violations"].append({"clause": "confluence", "sig": "one-at-a-time-dies-where-together-completes:" + cv["sig"].split(":", 1)[1],
                                          "detail": f"driver={driver} fmt={fmt_tag(fmt)} pending={pend}: approving them together completes; in the order {' then '.join(order)} the session that approves {c} ends in an internal error\n"
                                                    + cv["detail"][-1500:] + "\n--- before that session\n" + cur[sorted(k for k in cur if k.startswith('test_'))[0]].decode('utf-8', 'replace')[:900]})
                break
            out["discards"]["single-category-session-did-not-complete(C18)"] = out["discards"].get("single-category-session-did-not-complete(C18)", 0) + 1
            continue
        ctx.count("orders_executed")
        got = trees(cur)
        if got != want:
            fn = [k for k in want if got.get(k) != want[k]][0]
            pair = "+".join(sorted(set(order)))
            sig = f"order-matters:{'+'.join(pend)}"
            if trees(cur, sort_inserted_imports=True) == trees(comb, sort_inserted_imports=True):
                # narrow signature of the listed finding: the programs differ in nothing but the order of the import lines the tool added
                sig = "inserted-imports-in-session-order"
            if sig == "inserted-imports-in-session-order" and any(v["sig"] == sig for v in out["violations"]):
                continue
            out["violations"].append({"clause": "confluence", "sig": sig,
                                      "detail": f"driver={driver} fmt={fmt_tag(fmt)} pending={pend}: approving {' then '.join(order)} gives another program than approving {pend} together\n"
                                                f"--- before\n{s0[fn].decode()[:800]}\n--- one at a time ({'>'.join(order)})\n{cur[fn].decode('utf-8', 'replace')[:800]}\n--- together\n{comb[fn].decode('utf-8', 'replace')[:800]}"})
            if sig == "inserted-imports-in-session-order":
                continue  # the listed finding must not hide another difference in a later order
            break
    out["sample"] = {"pending": pend, "orders": len(perms), "driver": driver, "file": files[prog["files"][0]["name"]][:500]}
    return out


def shrink(case):
    for p in W.shrink_program(case["program"]):
        yield dict(case, program=p)
    if case["fmt"]["kind"] != "black":
        yield dict(case, fmt={"kind": "black"})
    if case.get("skip_updates"):
        yield dict(case, skip_updates=False)
    if case["driver"] == "plugin":
        yield dict(case, driver="inline", skip_updates=False)
