"""C14 - each snapshot() call site has its own state; repeated evaluation aggregates.

The schedule is the simulator-owned dimension: all evaluations of all sites are interleaved by a
seeded scheduler; every case is executed under two schedules that have the same per-site
subsequences.  Oracles: (a) the reference model, per site, independent of the interleaving;
(b) metamorphic and model-free: both schedules write byte-identical arguments and give the same
answers per site; (c) a hand-written argument that evaluates differently on a later evaluation
raises a usage error (Is(...) parts never do) and the argument text is left alone.
"""
import copy

from .. import drivers, sim
from ..gen import program as P
from ..gen import values as V
from ..gen import workload as W
from ..model import MISSING, SessionModel, value_equal
from ..prng import sub
from .c01 import draw_fmt, fmt_tag

ID = "C14"
PROBES = ['probe_sites_alternate', 'probe_reevaluated_argument', 'sites_judged']  # reach probes: counters that must be non-zero in a run (a zero is printed and recorded)
LEVEL = "exploration"
BUDGET = {"quick": 1200, "thorough": 30000}
WALL = {"quick": 240, "thorough": 3000}
TECHNIQUE = "deterministic simulation: seeded scheduler interleaves the evaluations of n call sites; two schedules per case compared (metamorphic) and checked against a per-site reference model"
LEVEL_TEXT = ("seeded search over programs with up to 8 call sites (same function, lambda bodies, module level shared by tests, twin files with "
              "identically named and placed functions) whose evaluations are interleaved by the scheduler; two interleavings with equal per-site "
              "subsequences must produce identical arguments and answers; sampling of schedules, not enumeration")
LEVEL_NOTE = ("trusted: reference model; collisions through id() reuse of freed code objects are not reachable (address reuse is not a seam the "
              "simulator owns; needs exec/reload inside a test) - stated in the evidence")
RULE = ("one run = program (1-2 files, second file possibly a twin of the first: same function names on the same lines, other data; 2-8 sites; "
        "1-5 evaluations each) x approved set x 2 schedules (uniform / round-robin / bursty / reversed merge of the per-site sequences, cut into "
        "tests at random); distinct = interleaving signatures (hash of the site-id sequence with values erased); non-trivial = at least two sites "
        "whose evaluations alternate")
RULE += " Dimensions added while testing against seeded changes: looped comparisons inside finally blocks (one textual call reached by two instructions: normal and exceptional path); access-only keys; mutation test; a first test with a fault at one site; re-evaluated containers with a changing hand-written part in front of an Is() part, and with two Is() parts; a helper module imported under two names."
ASSUMPTIONS = ["all events are non-aborting (rec style) so both schedules reach the same observations",
               "id() reuse of freed code objects is out of reach (see level note)"]
REAL_VS_STUB = {
    "real": ["inline_snapshot library from /repo/src (global call-site table, keyed by the call's source node since fix 5edbd3e)", "Example.run_inline (bulk)",
             "pytest + plugin (sample)", "executing / asttokens"],
    "stub": ["the scheduler (writes the interleaving into the test bodies)", "formatter states"],
}
CATS = ["create", "fix", "trim", "update"]


def _schedule(rng, per_site, mode):
    """merge per-site event sequences into one order"""
    seqs = [list(s) for s in per_site if s]
    out = []
    if mode == "reversed":
        seqs = seqs[::-1]
        mode = "roundrobin"
    while any(seqs):
        live = [s for s in seqs if s]
        if mode == "uniform":
            s = rng.choice(live)
            out.append(s.pop(0))
        elif mode == "roundrobin":
            for s in live:
                out.append(s.pop(0))
        else:  # bursty
            s = rng.choice(live)
            for _ in range(rng.randint(1, 3)):
                if s:
                    out.append(s.pop(0))
    return out


def _cut(rng, events, prefix, max_tests=4):
    n = rng.randint(1, max_tests)
    cuts = sorted(rng.sample(range(1, len(events)), min(n - 1, max(len(events) - 1, 0)))) if len(events) > 1 else []
    tests, prev = [], 0
    for i, c in enumerate(cuts + [len(events)]):
        tests.append({"name": f"test_{prefix}{i}", "events": events[prev:c]})
        prev = c
    return tests


def generate(seed, tier="quick"):
    rng = sub(seed, "program")
    prof = V.draw_profile(sub(seed, "profile"), max_depth=2)
    prof.special = [s for s in prof.special if s != "norepr"]
    o = dict(W.DEFAULT, prev=["none", "none", "same", "other", "slack", "subset", "superset"], styles=["rec"],
             places=["func", "func", "lam", "module", "direct"], max_obs=5)
    twin = rng.random() < 0.3
    nfiles = 2 if (twin or rng.random() < 0.25) else 1
    files = []
    sid_n = eid_n = 0
    for fi in range(nfiles):
        sites, per_site = {}, []
        if twin and fi == 1:
            # the twin: same names, same places, same previous arguments, other observed data
            for k, (sid0, s0) in enumerate(files[0]["sites"].items()):
                if s0.get("dyn"):
                    continue
                sid_n += 1
                sid = f"s{sid_n}"
                site, obs = W.gen_site(rng, prof, dict(o, prev=["none"]), sid, op=s0["op"])
                if s0["op"] == "item":
                    # same keys and the same operation per key as in the first file (the previous content belongs to them), other data
                    obs = {"keys": [[k, cop, W.gen_site(rng, prof, dict(o, prev=["none"], max_obs=3), sid, op=cop)[1]["vals"]] for k, cop, _ in s0["obs"]["keys"]]}
                site.update(place=s0["place"], arg=s0["arg"], prev=s0["prev"], name=s0.get("name", sid0))
                site["obs"] = obs
                sites[sid] = site
                per_site.append(_events_for(rng, sid, site, obs))
        else:
            for _ in range(rng.randint(2, 6)):
                sid_n += 1
                sid = f"s{sid_n}"
                site, obs = W.gen_site(rng, prof, o, sid)
                site["obs"] = obs
                sites[sid] = site
                per_site.append(_events_for(rng, sid, site, obs))
                if site["op"] == "item" and site["prev"] is not None and site["place"] != "direct":
                    # a key of the existing dict is fetched (s[key]) by some evaluation but never compared: it belongs to the union of keys
                    used = [e["key"] for e in per_site[-1]]
                    spare = [k for k, _ in site["prev"][1] if not any(V._safe_eq(V.pyval(k), V.pyval(u)) for u in used)]
                    if spare and rng.random() < 0.6:
                        per_site[-1].insert(rng.randint(0, len(per_site[-1])), {"t": "cmp", "site": sid, "key": rng.choice(spare), "access_only": True, "vals": [["int", 0]], "style": "rec"})
        # a site whose hand-written argument reads a global (re-evaluation clause)
        if rng.random() < 0.25:
            sid_n += 1
            sid = f"s{sid_n}"
            wrapped = rng.random() < 0.5
            sites[sid] = {"op": "eq", "place": rng.choice(["func", "lam"]), "arg": 'Is(G["v"])' if wrapped else 'G["v"]', "prev": None,
                          "dyn": "is" if wrapped else "bare"}
            g = [rng.randint(0, 3) for _ in range(rng.randint(2, 3))]
            shape = rng.choice(["plain", "plain", "mixed", "two-is"])
            if shape == "mixed":
                # a changing hand-written part in front of an Is() part of the same container: still rejected
                sites[sid].update(arg='[G["v"] * 3, Is(G["v"])]', dyn="bare")
                per_site.append([{"t": "cmp", "site": sid, "vals": [["list", [["int", 3 * x], ["int", x]]]], "setg": x, "style": "rec"} for x in g])
            elif shape == "two-is":
                # several Is() parts in one container: every one of them is refreshed on each evaluation
                sites[sid].update(arg='{"a": Is(G["v"]), "b": Is(G["v"] + 1), "c": 5}', dyn="is")
                per_site.append([{"t": "cmp", "site": sid, "vals": [["dict", [[["str", "a"], ["int", x]], [["str", "b"], ["int", x + 1]], [["str", "c"], ["int", 5]]]]], "setg": x, "style": "rec"} for x in g])
            else:
                per_site.append([{"t": "cmp", "site": sid, "vals": [["int", x]], "setg": x, "style": "rec"} for x in g])
        for seq in per_site:
            for e in seq:
                eid_n += 1
                e["eid"] = f"e{eid_n}"
                if len(e.get("vals", [])) >= 2 and sites[e["site"]]["place"] == "direct" and sub(seed, f"fin{eid_n}").random() < 0.4:
                    # one textual call reached by two instructions: the looped comparison sits in a finally block whose body is evaluated on the
                    # normal and on the exceptional path alternately; the evaluations still belong to one call site (same aggregate as a plain loop)
                    e["fin"] = True
        files.append({"name": f"test_{'ab'[fi]}.py", "header": files[0]["header"] if (twin and fi == 1) else W.gen_layout(rng),
                      "sites": sites, "tests": [], "_per_site": per_site})
    srng = sub(seed, "schedule")
    scheds = []
    for k in range(2):
        mode = srng.choice(["uniform", "roundrobin", "bursty", "reversed"])
        sched = []
        for fi, f in enumerate(files):
            direct_first = [copy.deepcopy(seq) for seq in f["_per_site"]]
            order = _schedule(srng, direct_first, mode)
            sched.append(_cut(srng, order, f"t{fi}"))
        scheds.append({"mode": mode, "tests": sched})
    mrng = sub(seed, "mutation")
    if mrng.random() < 0.3:
        # one more test (the same in both schedules): an object observed repeatedly by one site while the test mutates it in between
        t = W.add_mutation_test(mrng, files[0], ops=("in", "in", "le", "ge", "eq"))
        files[0]["tests"] = []
        for s in scheds:
            s["tests"][0].append(copy.deepcopy(t))
    trng = sub(seed, "trouble")
    if trng.random() < 0.25:
        # the first test of the session (the same in both schedules) compares a value whose element __eq__ raises while the library
        # aligns it with the list in the source: a fault at ONE call site; every other site still has to behave as if it were alone
        f = files[0]
        prev = ["list", [["int", 1], ["int", 2]]]
        val = trng.choice([["list", [["raiseseq", 1], ["int", 2]]], ["list", [["int", 1], ["evileq", 2], ["int", 3]]], ["tuple", [["raiseseq", 1]]]])
        if val[0] == "tuple":
            prev = ["tuple", [["int", 1]]]
        f["sites"]["trouble"] = {"op": "eq", "place": "direct", "arg": V.expr(prev), "prev": prev, "trouble": True}
        t = {"name": "test_00trouble", "events": [{"t": "cmp", "eid": "etrouble", "site": "trouble", "vals": [val], "style": "rec"}]}
        for s in scheds:
            s["tests"][0].insert(0, copy.deepcopy(t))
    for f in files:
        del f["_per_site"]
    frng = sub(seed, "flags")
    approved = frng.choice([["create", "fix"], list(CATS), [], ["create"], ["fix", "trim"], [c for c in CATS if frng.random() < 0.5]])
    driver = "plugin" if sub(seed, "driver").random() < 0.08 else "inline"
    double_import = sub(seed, "double-import").random() < 0.08
    if double_import:
        driver = "plugin"  # (the in-process helper only takes the test files of a project)
        approved = sorted(set(approved) | {"create"})
    return {"files": files, "schedules": scheds, "approved": approved, "driver": driver, "fmt": draw_fmt(sub(seed, "fmt")), "double_import": double_import}


def _events_for(rng, sid, site, obs):
    evs = []
    if site["op"] == "item":
        entries = obs["keys"] if site["place"] != "direct" else obs["keys"][:1]
        for k, cop, vals in entries:
            evs.append({"t": "cmp", "site": sid, "vals": list(vals), "key": k, "cop": cop, "style": "rec"})
    elif site["place"] == "direct":
        evs.append({"t": "cmp", "site": sid, "vals": list(obs["vals"]), "style": "rec"})
    else:
        for v in obs["vals"]:
            evs.append({"t": "cmp", "site": sid, "vals": [v], "style": "rec"})
    return evs


HLP = "from inline_snapshot import snapshot\n\n\ndef check_h(v):\n    return v == snapshot()\n\n\ndef bound_h(v):\n    return v <= snapshot()\n"


def program_for(case, k):
    files = []
    for f, tests in zip(case["files"], case["schedules"][k]["tests"]):
        files.append(dict(f, tests=tests))
    prog = {"files": files, "pyproject": None}
    if case.get("double_import"):
        # one helper module that is imported under two names in the same session (its directory is on sys.path AND it is a package):
        # two code objects, one call in the source - still one call site
        files[0] = dict(files[0], tests=list(files[0]["tests"]) + [{"name": "test_zz_double_import", "events": [
            {"t": "stmt", "text": "import os, sys"},
            {"t": "stmt", "text": "sys.path.insert(0, os.path.join(os.path.dirname(os.path.abspath(__file__)), 'hlpdir'))"},
            {"t": "stmt", "text": "import hlp"},
            {"t": "stmt", "text": "import hlpdir.hlp as hlp2"},
            {"t": "stmt", "text": "rec('dbl1', lambda: hlp.check_h(5))"},
            {"t": "stmt", "text": "rec('dbl2', lambda: hlp2.check_h(5))"},
            {"t": "stmt", "text": "rec('dbl3', lambda: hlp.bound_h(3))"},
            {"t": "stmt", "text": "rec('dbl4', lambda: hlp2.bound_h(8))"}]}])
        prog["extra_files"] = {"hlpdir/__init__.py": "", "hlpdir/hlp.py": HLP}
    return prog


def interleaving_signature(prog):
    import hashlib

    seq = [e["site"] for fn, tn, e in W.events_in_order(prog) if e.get("t") == "cmp" for _ in e.get("vals", [0])]
    alternations = sum(1 for a, b in zip(seq, seq[1:]) if a != b)
    return hashlib.sha256(",".join(seq).encode()).hexdigest()[:12], alternations


def execute(case, ctx):
    driver, fmt, approved = case["driver"], case["fmt"], set(case["approved"])
    out = {"violations": [], "discards": {}, "abstract": []}

    def viol(clause, sig, detail):
        if not any(v["clause"] == clause and v["sig"] == sig for v in out["violations"]):
            out["violations"].append({"clause": clause, "sig": sig, "detail": detail})

    flags = ",".join((["report"] if driver == "plugin" else []) + sorted(approved)) or None
    runs = []
    for k in range(2):
        prog = program_for(case, k)
        files, orders = P.render(prog, drivers.simlib_text())
        if driver == "plugin":
            files["pyproject.toml"] = sim.pyproject_for(fmt)
        new, res = sim.run_session(ctx, driver, files, {"flags": flags, "fmt": fmt})
        if not sim.session_completed(driver, res):
            out["violations"].append(sim.completion_violation(driver, res, f"approved={sorted(approved)} schedule={case['schedules'][k]['mode']}"))
            return out
        try:
            before = sim.site_map(files, orders)
            after = sim.site_map(sim.to_text(new), orders)
        except SyntaxError as ex:
            viol("parse", "unparsable-after-session", str(ex))
            return out
        if case.get("double_import"):
            import ast as _ast

            ctx.count("probe_helper_module_imported_under_two_names")
            htext = sim.to_text(new).get("hlpdir/hlp.py", "")
            try:
                calls = [n for n in _ast.walk(_ast.parse(htext)) if isinstance(n, _ast.Call) and getattr(n.func, "id", "") == "snapshot"]
                vals = [(_ast.literal_eval(c.args[0]) if len(c.args) == 1 else f"<{len(c.args)} arguments>") for c in calls]
            except (SyntaxError, ValueError) as ex:
                vals = [f"<{ex}>"]
            if vals != [5, 8]:
                viol("aggregation", "one-call-imported-under-two-names-has-two-states", f"approved={sorted(approved)}: hlpdir/hlp.py should hold snapshot(5) and snapshot(8) (bound over 3 and 8), found {vals}\n{htext}")
        sig, alt = interleaving_signature(prog)
        out["abstract"].append(sig)
        if alt >= 2:
            ctx.count("probe_sites_alternate")
        runs.append({"prog": prog, "files": files, "orders": orders, "res": res, "before": before, "after": after, "rec": sim.rec_by_eid(res.get("rec", []))})
    sidx = {sid: s for f in case["files"] for sid, s in f["sites"].items()}
    fname = {sid: f["name"] for f in case["files"] for sid in f["sites"]}
    ctx.count("clauses_checked")
    # ---- (b) metamorphic: same per-site subsequences -> identical arguments and answers
    A, B = runs
    for sid, s in sidx.items():
        key = (fname[sid], sid)
        if key not in A["after"] or key not in B["after"]:
            continue
        ta, tb = A["after"][key].region_text, B["after"][key].region_text
        if ta != tb:
            viol("schedule-independence", f"argument-differs-between-schedules:{s['op']}",
                 f"site {sid} ({s['op']}, {s['place']}) approved={sorted(approved)} driver={driver}\n  schedule {case['schedules'][0]['mode']}: {ta!r:.300}\n"
                 f"  schedule {case['schedules'][1]['mode']}: {tb!r:.300}")
        eids = [e["eid"] for fn, tn, e in W.events_in_order(A["prog"]) if e.get("t") == "cmp" and e["site"] == sid]
        ansa = [A["rec"].get(e) for e in eids]
        ansb = [B["rec"].get(e) for e in eids]
        if ansa != ansb:
            viol("schedule-independence", f"answers-differ-between-schedules:{s['op']}",
                 f"site {sid} ({s['op']}, {s['place']}) approved={sorted(approved)}: {ansa} vs {ansb}")
    # ---- (a) reference model on schedule 0 (per-site aggregation, independent of the interleaving)
    prog = A["prog"]
    ops = {sid: s["op"] for sid, s in sidx.items()}
    src, bad = {}, set()
    for (fn, sid), call in A["before"].items():
        if sidx[sid].get("dyn"):
            bad.add(sid)
            src[sid] = MISSING
            continue
        if call.arg_text is None:
            src[sid] = MISSING
        else:
            try:
                src[sid] = P.eval_arg(call.arg_text)
            except Exception:
                src[sid] = MISSING
                bad.add(sid)
    for sid in ops:
        src.setdefault(sid, MISSING)
    events = [(fn, tn, e) for fn, tn, e in W.events_in_order(prog) if not (e.get("site") in sidx and sidx[e["site"]].get("dyn"))]
    m = SessionModel(src, ops, approved).run(events, V.pyval)
    for (fn, sid), call in A["after"].items():
        if sid in bad:
            continue
        sm = m.sites[sid]
        if sm.exempt() or any(isinstance(a, str) for e in A["rec"] for a in []):
            continue
        if any(isinstance(a, str) for fn2, tn2, e in events if e.get("site") == sid for a in (A["rec"].get(e["eid"]) or [])):
            out["discards"]["site-exempt"] = out["discards"].get("site-exempt", 0) + 1
            continue
        try:
            want = sm.after(approved) if sm.kind is not None else src[sid]
            got = MISSING if call.arg_text is None else P.eval_arg(call.arg_text)
        except Exception:
            continue
        ctx.count("sites_judged")
        if not value_equal(sm.kind, got, want):
            viol("aggregation", f"{sm.kind}:value-differs-from-per-site-aggregate",
                 f"site {sid} op={ops[sid]} place={sidx[sid]['place']} approved={sorted(approved)} driver={driver}\n  before {A['before'][(fn, sid)].arg_text!r:.200}\n"
                 f"  observed {[repr(x)[:60] for x in sm.obs][:8]}\n  expected {want!r:.300}\n  found {call.arg_text!r:.300}")
    # ---- (c) re-evaluation of a hand-written argument
    for sid, s in sidx.items():
        if not s.get("dyn"):
            continue
        for R in runs:
            evs = [e for fn, tn, e in W.events_in_order(R["prog"]) if e.get("t") == "cmp" and e["site"] == sid]
            answers = [a for e in evs for a in (R["rec"].get(e["eid"]) or [])]
            gs = [e["setg"] for e in evs]
            ctx.count("probe_reevaluated_argument")
            key = (fname[sid], sid)
            def _tree(c):
                import ast

                try:
                    return ast.dump(ast.parse("(\n" + (c.arg_text or "None") + "\n)", mode="eval"))
                except SyntaxError:
                    return c.region_text

            # (compared as syntax trees: whole-file formatting may re-wrap a hand-written container)
            if _tree(R["after"][key]) != _tree(R["before"][key]) and (s["dyn"] == "is" or "update" not in approved):
                viol("re-evaluation", f"user-argument-rewritten:{s['dyn']}", f"site {sid}: {R['before'][key].region_text!r} -> {R['after'][key].region_text!r}")
            if s["dyn"] == "is":
                if any(isinstance(a, str) for a in answers):
                    viol("re-evaluation", "Is-part-raised-on-re-evaluation", f"site {sid} G values {gs}: answers {answers}")
                elif answers != [True] * len(answers):
                    viol("re-evaluation", "Is-part-not-refreshed", f"site {sid} G values {gs}: answers {answers}")
            else:
                for i, (g, a) in enumerate(zip(gs, answers)):
                    changed = g != gs[0]
                    if changed and a != "E:UsageError":
                        viol("re-evaluation", "changed-argument-not-rejected", f"site {sid}: argument G['v'] evaluated to {gs[0]} first and to {g} at evaluation {i}, answer {a!r} (all: {answers})")
                    if not changed and a is not True:
                        viol("re-evaluation", "unchanged-argument-rejected", f"site {sid}: G values {gs}, answers {answers}")
    out["sample"] = {"schedules": [s["mode"] for s in case["schedules"]], "approved": sorted(approved), "file": next(iter(A["files"].values()))[:700]}
    return out


def shrink(case):
    import json

    def clone():
        return json.loads(json.dumps(case))

    # drop a site everywhere
    for fi, f in enumerate(case["files"]):
        for sid in f["sites"]:
            c = clone()
            del c["files"][fi]["sites"][sid]
            for s in c["schedules"]:
                for t in s["tests"][fi]:
                    t["events"] = [e for e in t["events"] if e.get("site") != sid]
            if any(c["files"][fi]["sites"] for fi in range(len(c["files"]))):
                yield c
    if len(case["files"]) > 1:
        for fi in range(len(case["files"])):
            c = clone()
            del c["files"][fi]
            for s in c["schedules"]:
                del s["tests"][fi]
            yield c
    for a in case["approved"]:
        c = clone()
        c["approved"] = [x for x in case["approved"] if x != a]
        yield c
    if case["fmt"]["kind"] != "black":
        c = clone()
        c["fmt"] = {"kind": "black"}
        yield c
    for fi, f in enumerate(case["files"]):
        if f.get("header"):
            c = clone()
            c["files"][fi]["header"] = {}
            yield c
