"""C16 - generated code is deterministic and independent of the formatter's presence.

The simulator owns PYTHONHASHSEED (each session is executed by warm server interpreters started
under different fixed hash seeds), the directory-iteration order and the formatter state.
Oracles: across hash seeds and directory orders the rewritten files are byte-identical; across
formatter states the written argument has the same syntax tree and the same value; an equal dict
built in another insertion order causes no rewrite of an existing dict snapshot.
"""
import ast
import atexit
import json
import os
import subprocess
import sys

from .. import drivers, sim
from ..gen import program as P
from ..gen import values as V
from ..gen import workload as W
from ..prng import sub
from ..world import HarnessError
from .c01 import fmt_tag

ID = "C16"
PROBES = ['probe_hash_sensitive_value', 'probe_reordered_construction', 'probe_equal_but_distinguishable_twins']  # reach probes: counters that must be non-zero in a run (a zero is printed and recorded)
LEVEL = "exploration"
BUDGET = {"quick": 140, "thorough": 4000}
WALL = {"quick": 300, "thorough": 3400}
JOBS_CAP = 8
MIN_BUDGET = 30
TECHNIQUE = "deterministic simulation: the same seeded session executed by interpreters under different PYTHONHASHSEED values, directory orders and formatter states; outputs compared"
LEVEL_TEXT = ("seeded search over values containing sets / frozensets / dicts (str, bytes, None, tuples, mixed unorderable elements, nested sets, enum members) "
              "x 6 hash seeds x directory-order permutations x 4 formatter states; every (case, hash seed) is a fresh session in a server interpreter started "
              "with that PYTHONHASHSEED; sampling, not proof")
LEVEL_NOTE = ("trusted: the hash seeds are fixed values (0, 1, 2, 3, 1234567, 987654321) so that replay is exact; for a *created* dict the text follows the "
              "insertion order of the observed dict (Python semantics) - order independence is not demanded there (DESIGN 4/C16)")
RULE = ("one run = project (1-2 files, 1-4 == / in sites, empty or with previous content) with hash-sensitive values, executed under 6 hash seeds (directory order "
        "permuted per seed) with black, and under black / absent / format-command / raising formatter with hash seed 0; distinct = (value type-path, formatter "
        "state); non-trivial = a value with a set or frozenset of >= 2 elements whose iteration order depends on the hash seed (str / bytes / None / nested)")
RULE += " Dimensions added while testing against seeded changes: instances of set / frozenset subclasses without a __repr__ of their own; sets of tuples whose first member is a frozenset (partially ordered although not sets); equal-but-distinguishable twins; files needing both tool imports; CRLF projects with multi-line strings and a CRLF-writing format-command among the formatter states."
ASSUMPTIONS = ["dict insertion order of a created dict is kept (documented Python semantics), not an instability"]
REAL_VS_STUB = {
    "real": ["inline_snapshot library from /repo/src in interpreters started with PYTHONHASHSEED=h", "Example.run_inline", "pytest + plugin (sample)", "black"],
    "stub": ["directory listing order (permuted by the seam)", "format-command stub / absent / raising black"],
}
HASHSEEDS = ["0", "1", "2", "3", "1234567", "987654321"]
FMTS = [{"kind": "black"}, {"kind": "absent"}, {"kind": "cmd", "stub": "black", "mode": {"line_length": 60}}, {"kind": "raises", "always": True}]

_servers = {}


def server(h):
    p = _servers.get(h)
    if p is not None and p.poll() is None:
        return p
    env = dict(os.environ)
    env["PYTHONHASHSEED"] = h
    env["PYTHONPATH"] = os.path.dirname(os.path.dirname(os.path.dirname(os.path.abspath(__file__)))) + (os.pathsep + env["PYTHONPATH"] if env.get("PYTHONPATH") else "")
    p = subprocess.Popen([sys.executable, "-m", "isim.hashserver"], stdin=subprocess.PIPE, stdout=subprocess.PIPE, stderr=subprocess.DEVNULL, env=env, text=True, bufsize=1)
    hello = json.loads(p.stdout.readline())
    if not hello.get("ready") or hello.get("hashseed") != h:
        raise HarnessError(f"hash server for seed {h} did not start: {hello}")
    _servers[h] = p
    return p


@atexit.register
def _stop():
    for p in _servers.values():
        try:
            p.stdin.close()
            p.wait(timeout=5)
        except Exception:
            p.kill()


def call(h, driver, files, spec):
    p = server(h)
    p.stdin.write(json.dumps({"driver": driver, "files": sim.to_text(files), "spec": spec}) + "\n")
    p.stdin.flush()
    line = p.stdout.readline()
    if not line:
        raise HarnessError(f"hash server {h} died")
    ans = json.loads(line)
    if "harness_error" in ans:
        raise HarnessError(ans["harness_error"])
    return ans


def generate(seed, tier="quick"):
    rng = sub(seed, "program")
    prof = V.draw_profile(sub(seed, "profile"), max_depth=3, hash_sensitive=True)
    prof.special = sorted(set(prof.special) | {"set", "frozenset", "enum"} - {"norepr", "complex", "inf"})
    prof.containers = sorted(set(prof.containers) | {"dict", "tuple"})
    prof.scalars = sorted(set(prof.scalars) | {"str", "none"})
    prof.alphabet = "plain"
    prog = W.gen_program(rng, prof, {"prev": ["none", "none", "other", "edit"], "n_files": (1, 2), "n_sites": (1, 4), "n_tests": (1, 2), "styles": ["rec"],
                                     "ops": ["eq", "eq", "in", "item"], "layout": False})
    trng = sub(seed, "twins")
    twins = None
    if trng.random() < 0.4:
        # "equal but distinguishable" values observed in the same session (1 / True / 1.0, 0.0 / -0.0, inside tuples and frozensets):
        # the text written for one must not depend on the other having been seen first
        f = prog["files"][0]
        base = trng.choice([[["int", 1], ["str", "x"]], [["int", 0], ["int", 1]], [["float", "0.0"], ["int", 2]], [["int", 1], ["int", 2]]])

        def retype(n):
            if n[0] == "int" and n[1] in (0, 1):
                return trng.choice([["bool", bool(n[1])], ["float", repr(float(n[1]))]])
            if n[0] == "int":
                return ["float", repr(float(n[1]))]
            if n[0] == "float" and n[1] == "0.0":
                return ["float", "-0.0"]
            return n

        wrap = trng.choice(["tuple", "tuple", "frozenset", "bare"])
        variants = [base, [retype(n) for n in base]]
        trng.shuffle(variants)
        twins = []
        for k, items in enumerate(variants):
            val = ["tuple", items] if wrap == "tuple" else ["frozenset", items] if wrap == "frozenset" else items[0]
            sid = f"tw{k}"
            f["sites"][sid] = {"op": trng.choice(["eq", "eq", "in", "le"]) if wrap in ("bare", "tuple") else trng.choice(["eq", "in"]), "place": "direct", "arg": None, "prev": None}
            f["tests"].append({"name": f"test_twin{k}", "events": [{"t": "cmp", "eid": f"etw{k}", "site": sid, "vals": [val], "style": "rec"}]})
            twins.append(sid)
    krng = sub(seed, "setkeys")
    if krng.random() < 0.3:
        # sets of strings in *key* position of a created dict (bare, or inside a tuple key), and as dict values next to them
        f = prog["files"][0]
        fs = lambda: ["frozenset", V._uniq([["str", krng.choice("abcdefgh") * krng.randint(1, 2)] for _ in range(krng.randint(2, 4))])]
        keyv = fs() if krng.random() < 0.6 else ["tuple", [["int", krng.randint(0, 3)], fs()]]
        val = ["dict", [[keyv, krng.choice([["int", 1], fs()])], [["str", "k"], ["int", 2]]]]
        if krng.random() < 0.3:
            val = ["list", [val]]
        f["sites"]["sk"] = {"op": krng.choice(["eq", "eq", "in"]), "place": "direct", "arg": None, "prev": None}
        f["tests"].append({"name": "test_setkeys", "events": [{"t": "cmp", "eid": "esk", "site": "sk", "vals": [val], "style": "rec"}]})
    brng = sub(seed, "subclass")
    if brng.random() < 0.25:
        # instances of subclasses of set / frozenset (no __repr__ of their own), bare and inside other containers
        f = prog["files"][0]
        strs = lambda: V._uniq([["str", brng.choice("abcdefgh") * brng.randint(1, 3)] for _ in range(brng.randint(2, 5))])
        val = brng.choice([["subc", ["set", strs()], "Tags"], ["subc", ["frozenset", strs()], "FTags"]])
        r = brng.random()
        if r < 0.25:
            val = ["list", [val, ["int", 1]]]
        elif r < 0.4:
            val = ["dict", [[["str", "tags"], val]]]
        elif r < 0.5:
            val = ["tuple", [["int", 0], val]]
        f["sites"]["sb"] = {"op": brng.choice(["eq", "eq", "in", "item"]), "place": "direct", "arg": None, "prev": None}
        e = {"t": "cmp", "eid": "esb", "site": "sb", "vals": [val], "style": "rec"}
        if f["sites"]["sb"]["op"] == "item":
            e["key"], e["cop"] = ["str", "k"], "eq"
        f["tests"].append({"name": "test_subclass", "events": [e]})
    crng = sub(seed, "crlf")
    if crng.random() < 0.1:
        # a project with windows line ends and a multi-line string among the values: one more formatter state is a format-command that writes CRLF
        for f in prog["files"]:
            f["header"] = dict(f.get("header") or {}, eol="crlf")
            f["header"].pop("tabs", None)
        f = prog["files"][0]
        f["sites"]["ml"] = {"op": crng.choice(["eq", "eq", "in"]), "place": "direct", "arg": None, "prev": None}
        f["tests"].append({"name": "test_multiline", "events": [{"t": "cmp", "eid": "eml", "site": "ml", "style": "rec",
                                                                "vals": [crng.choice([["str", "first\nsecond\nthird"], ["dict", [[["str", "k"], ["str", "a\n\nb\n"]], [["str", "s"], ["set", [["str", "x"], ["str", "y"]]]]]]])]}]})
    driver = "plugin" if sub(seed, "driver").random() < 0.12 else "inline"
    irng = sub(seed, "imports")
    if driver == "plugin" and irng.random() < 0.7:
        # one file needs both imports the tool can add (external, HasRepr): the whole rewritten file is compared between hash seeds
        from . import c13

        f = prog["files"][0]
        f["sites"]["xa"] = {"op": "eq", "place": "direct", "arg": None, "prev": None}
        f["sites"]["nr"] = {"op": "eq", "place": "direct", "arg": None, "prev": None}
        f["tests"].append({"name": "test_imports", "events": [{"t": "cmp", "eid": "exa", "site": "xa", "vals": [c13.wrap(irng, c13.ext_value(irng))], "style": "rec"},
                                                              {"t": "cmp", "eid": "enr", "site": "nr", "vals": [["norepr", irng.randint(1, 5)]], "style": "rec"}]})
    return {"program": prog, "twins": twins, "flags": sub(seed, "flags").choice(["create,fix", "create,fix,update", "create,fix,trim,update"]),
            "driver": driver, "dict_order": sub(seed, "do").randint(0, 10**6)}


def hash_sensitive(prog):
    n = 0
    for f in prog["files"]:
        for t in f["tests"]:
            for e in t["events"]:
                for v in e.get("vals", []):
                    for x in V.walk(v):
                        if x[0] in ("set", "frozenset") and len(x[1]) >= 2 and any(y[0] in ("str", "bytes", "none", "tuple", "frozenset", "enum", "dc") for y in x[1]):
                            n += 1
    return n


def execute(case, ctx):
    prog, driver, flags = case["program"], case["driver"], case["flags"]
    out = {"violations": [], "discards": {}, "abstract": []}

    def viol(clause, sig, detail):
        if not any(v["clause"] == clause and v["sig"] == sig for v in out["violations"]):
            out["violations"].append({"clause": clause, "sig": sig, "detail": detail})

    files, orders = P.render(prog, drivers.simlib_text())
    base = dict(files)
    results = {}
    for i, h in enumerate(HASHSEEDS):
        f = dict(base)
        if driver == "plugin":
            f["pyproject.toml"] = ""
        r = call(h, driver, f, {"flags": ("report," + flags) if driver == "plugin" else flags, "fmt": {"kind": "black"}, "dir_seed": i * 7 + 1})
        ctx.sessions += 1
        ctx.log.append({"h": h, "files": r["files"], "completed": r["completed"]})
        if not r["completed"]:
            out["discards"]["session-did-not-complete(C18)"] = 1
            return out
        results[h] = r
    ctx.count("clauses_checked")
    ref = results[HASHSEEDS[0]]["files"]
    tests = sorted(k for k in ref if k.startswith("test_"))
    nsens = hash_sensitive(prog)
    if nsens:
        ctx.count("probe_hash_sensitive_value", nsens)
    for h in HASHSEEDS[1:]:
        for k in tests:
            if results[h]["files"].get(k) != ref[k]:
                # narrow signature: which kind of set is involved
                kinds = set()
                try:
                    a = sim.site_map({k: ref[k]}, {k: orders[k]})
                    b = sim.site_map({k: results[h]["files"][k]}, {k: orders[k]})
                    for key in a:
                        if a[key].region_text != b[key].region_text:
                            t = ast.parse("(" + (a[key].arg_text or "None") + ")", mode="eval")
                            for n in ast.walk(t):
                                if isinstance(n, ast.Set) or (isinstance(n, ast.Call) and getattr(n.func, "id", "") == "frozenset"):
                                    elts = n.elts if isinstance(n, ast.Set) else (n.args[0].elts if n.args and isinstance(n.args[0], ast.Set) else [])
                                    for e in elts:
                                        if isinstance(e, ast.Call) and getattr(e.func, "id", "") == "frozenset":
                                            kinds.add("set-of-frozensets")
                                        elif isinstance(e, ast.Tuple):
                                            kinds.add("set-of-tuples")
                                        else:
                                            kinds.add("set-of-" + type(e).__name__.lower())
                except Exception:
                    pass
                viol("hash-seed-independence", "text-differs-between-hash-seeds:" + "+".join(sorted(kinds) or ["?"]),
                     f"driver={driver} flags={flags}: {k} differs between PYTHONHASHSEED={HASHSEEDS[0]} and {h}\n--- seed {HASHSEEDS[0]}\n{ref[k][:900]}\n--- seed {h}\n{results[h]['files'][k][:900]}")
                break
    # ---- across formatter states (hash seed 0): same syntax tree and same value of every argument
    base_map = None
    fmts = list(FMTS)
    if any((f.get("header") or {}).get("eol") == "crlf" for f in prog["files"]):
        fmts.append({"kind": "cmd", "stub": "black-crlf", "mode": {"line_length": 60}})
        ctx.count("probe_crlf_project_with_crlf_writing_format_command")
    for fmt in fmts:
        f = dict(base)
        if driver == "plugin":
            f["pyproject.toml"] = sim.pyproject_for(fmt)
        r = call("0", driver, f, {"flags": ("report," + flags) if driver == "plugin" else flags, "fmt": fmt})
        ctx.sessions += 1
        ctx.log.append({"fmt": fmt_tag(fmt), "files": r["files"]})
        if not r["completed"]:
            out["discards"]["session-did-not-complete(C18)"] = out["discards"].get("session-did-not-complete(C18)", 0) + 1
            continue
        try:
            m = sim.site_map({k: v for k, v in r["files"].items() if k.startswith("test_")}, orders)
        except SyntaxError as ex:
            viol("formatter-independence", f"unparsable-under:{fmt_tag(fmt)}", str(ex))
            continue
        dumps = {}
        for key, c in m.items():
            try:
                dumps[key] = ast.dump(ast.parse("(\n" + c.arg_text + "\n)", mode="eval")) if c.arg_text is not None else None
            except SyntaxError:
                dumps[key] = "SYNTAX-ERROR"
        for v0 in [e["vals"][0] for f2 in prog["files"] for t in f2["tests"] for e in t["events"] if e.get("vals")][:3]:
            out["abstract"].append(f"{V.type_path(v0, 3)}|{fmt_tag(fmt)}")
        if base_map is None:
            base_map = (fmt, dumps, m)
            continue
        for key in dumps:
            if dumps[key] != base_map[1].get(key):
                viol("formatter-independence", f"argument-tree-differs:{fmt_tag(base_map[0])}-vs-{fmt_tag(fmt)}",
                     f"site {key}: {base_map[2][key].arg_text!r:.300} ({fmt_tag(base_map[0])}) vs {m[key].arg_text!r:.300} ({fmt_tag(fmt)})")
                break
    # ---- an equal dict built in another insertion order causes no rewrite of an existing dict snapshot
    import random

    rng = random.Random(case.get("dict_order", 0))
    prog2 = json.loads(json.dumps(prog))
    changed = False
    try:
        cur = sim.site_map({k: v for k, v in ref.items() if k.startswith("test_")}, orders)
    except SyntaxError:
        cur = None
    if cur is not None:
        for f2 in prog2["files"]:
            for sid, s in f2["sites"].items():
                c = cur.get((f2["name"], sid))
                if c is not None:
                    s["arg"] = c.region_text.replace("\r\n", "\n").rstrip(", \n") or None if c.arg_text is not None else None  # (the renderer adds the file's line ends again)
            for t in f2["tests"]:
                for e in t["events"]:
                    for v in e.get("vals", []):
                        for n in V.walk(v):
                            if n[0] == "dict" and len(n[1]) >= 2:
                                rng.shuffle(n[1])
                                changed = True
                            elif n[0] in ("set", "frozenset") and len(n[1]) >= 2:
                                rng.shuffle(n[1])
                                changed = True
        if changed:
            files2, orders2 = P.render(prog2, drivers.simlib_text())
            r = call("1", "inline", {k: v for k, v in files2.items()}, {"flags": "fix", "fmt": {"kind": "black"}})
            ctx.sessions += 1
            ctx.log.append({"dict_order": r["files"]})
            if r["completed"] and not r.get("raises"):
                ctx.count("probe_reordered_construction")
                for k in tests:
                    if (r["files"].get(k) or "").replace("\r\n", "\n") != files2[k].replace("\r\n", "\n"):  # (line ends are C03's business; the server hands files back as text)
                        viol("construction-order-independence", "equal-value-built-in-another-order-rewrites-the-snapshot",
                             f"{k}: the same values with dicts / sets built in another insertion order made a session with fix approved rewrite the file\n--- before\n{files2[k][:800]}\n--- after\n{r['files'][k][:800]}")
                        break
    # ---- the text written for a value depends only on the value and the file, not on which equal-but-distinguishable
    #      value the session happened to see before it
    if case.get("twins"):
        fn0 = prog["files"][0]["name"]
        for keep in case["twins"]:
            drop = [t for t in case["twins"] if t != keep][0]
            prog3 = json.loads(json.dumps(prog))
            f3 = prog3["files"][0]
            f3["tests"] = [t for t in f3["tests"] if not any(e.get("site") == drop for e in t["events"])]
            del f3["sites"][drop]
            files3, orders3 = P.render(prog3, drivers.simlib_text())
            r3 = call("0", "inline", files3, {"flags": flags, "fmt": {"kind": "black"}})
            ctx.sessions += 1
            ctx.log.append({"twin_alone": keep, "files": r3["files"]})
            if not r3["completed"]:
                continue
            try:
                alone = sim.site_map({fn0: r3["files"][fn0]}, {fn0: orders3[fn0]})
                both = sim.site_map({fn0: ref[fn0]}, {fn0: orders[fn0]})
            except SyntaxError:
                continue
            ctx.count("probe_equal_but_distinguishable_twins")
            a, b = alone[(fn0, keep)].region_text, both[(fn0, keep)].region_text
            if a != b:
                viol("depends-only-on-value", "text-depends-on-an-equal-value-seen-earlier-in-the-session",
                     f"site {keep}: written {a!r} when observed alone, but {b!r} when the equal-but-different value of site {drop} is observed in the same session\n{ref[fn0][:900]}")
    out["sample"] = {"flags": flags, "driver": driver, "hash_sensitive_sets": nsens, "file": ref[tests[0]][:600]}
    return out


def shrink(case):
    for p in W.shrink_program(case["program"]):
        yield dict(case, program=p)
    if case["driver"] == "plugin":
        yield dict(case, driver="inline")
