"""C19 - the public testing helpers reproduce what a real session does.

'Replica agreement': three independently coded session executors are handed the same durable state
- Example.run_inline (in-process exec), Example.run_pytest (subprocess) and the real plugin in a
forked pytest session - at every step of multi-session histories, i.e. also on files that one of
the others wrote.  Oracle: changed files equal pairwise, byte for byte; pending categories equal.
Weak leverage: this is differential testing; the simulator contributes the shared durable state,
the histories and the process seams.  It is also the licence for using run_inline as the fast
driver in the other checks.
"""
from .. import drivers, sim
from ..gen import program as P
from ..gen import values as V
from ..gen import workload as W
from ..prng import sub

ID = "C19"
PROBES = ['steps_that_changed_files']  # reach probes: counters that must be non-zero in a run (a zero is printed and recorded)
LEVEL = "exploration"
BUDGET = {"quick": 160, "thorough": 3000}
WALL = {"quick": 300, "thorough": 3400}
TECHNIQUE = "deterministic simulation: the same durable state executed by three session executors (run_inline / run_pytest / real plugin) at every step of a seeded history; pairwise comparison"
LEVEL_TEXT = ("seeded search over projects without externals (plain test_* functions, 1-2 files, raising and failing tests included) x category subsets x "
              "histories of 1-3 sessions; at every step all three executors start from the same files and must produce the same changed files and the "
              "same pending categories; sampling, not proof")
LEVEL_NOTE = "trusted: the capture objects standing for snapshots in Example's keyword arguments; the plugin's report headers as its list of pending categories"
RULE = ("one run = project x category subset x 1-3 steps; per step run_inline, run_pytest (cold subprocess started by the helper) and the plugin (forked) run on "
        "the same files; distinct = (category subset, operations, whether tests raise, step number); non-trivial = at least one file changed by a step")
RULE += " Dimensions added while testing against seeded changes: INLINE_SNAPSHOT_DEFAULT_FLAGS exported with other flags in the environment of all three executors; same-size repairs followed by further real sessions; xfail tests; files sharing module-level names; projects with [tool.black] options handed to all three executors."
ASSUMPTIONS = ["projects use no externals, fixtures, marks, parametrisation or classes (run_inline documents that it only calls test_* functions)",
               "the 'update' category is compared only through the files (its report section is hidden for empty diffs)"]
REAL_VS_STUB = {
    "real": ["Example.run_inline", "Example.run_pytest -> python -m pytest subprocess with all plugins autoloading", "pytest + inline_snapshot plugin in a forked session"],
    "stub": ["the user (flags)"],
}
CATS = ["create", "fix", "trim", "update"]
MIN_BUDGET = 40


def generate(seed, tier="quick"):
    rng = sub(seed, "program")
    prof = V.draw_profile(sub(seed, "profile"), max_depth=2)
    if sub(seed, "norepr").random() < 0.6:
        prof.special = [s for s in prof.special if s != "norepr"]
    elif "norepr" not in prof.special:
        prof.special.append("norepr")
    prog = W.gen_program(rng, prof, {"prev": ["none", "same", "other", "edit", "slack", "wrong", "subset", "superset"], "n_files": (1, 3), "n_sites": (1, 4),
                                     "n_tests": (1, 4), "styles": ["assert", "rec"], "raise_events": 0.2, "hand": 0.4})
    # test names are not in alphabetical order of definition (pytest runs a module's tests in definition order)
    nrng = sub(seed, "names")
    pool = ["zebra", "apple", "mango", "kiwi", "banana", "yam", "fig", "olive", "date", "plum", "cherry", "lime"]
    nrng.shuffle(pool)
    i = 0
    for f in prog["files"]:
        for t in f["tests"]:
            t["name"] = f"test_{pool[i % len(pool)]}{i}"
            i += 1
    # files of one project that use the same module-level names (helper functions, module-level snapshots) with different data:
    # every file is a module of its own
    krng = sub(seed, "samenames")
    fs = sorted(prog["files"], key=lambda f: f["name"])
    if len(fs) >= 2 and krng.random() < 0.5:
        first = [(sid, s) for sid, s in fs[0]["sites"].items() if s["place"] in ("func", "lam", "module")]
        for f in fs[1:]:
            pool_ = list(first)
            for sid, s in f["sites"].items():
                if s["place"] in ("func", "lam", "module") and pool_:
                    cand = [x for x in pool_ if x[1]["place"] == s["place"]] or pool_
                    pick = cand[0]
                    pool_.remove(pick)
                    s["name"] = pick[1].get("name", pick[0])
    # a test marked xfail that uses no snapshot (it passes: XPASS, non-strict): all three drivers still have to agree on the other tests
    xr = sub(seed, "xfail")
    if xr.random() < 0.25:
        fs = sorted(prog["files"], key=lambda f: f["name"])
        f = fs[-1] if xr.random() < 0.6 else xr.choice(fs)
        t = {"name": f"test_marked{i}", "events": [], "xfail": True}
        if xr.random() < 0.6:
            f["tests"].append(t)  # the last test of the module (and, in the last module, of the session)
        else:
            f["tests"].insert(xr.randrange(len(f["tests"]) + 1), t)
    frng = sub(seed, "flags")
    steps = []
    for _ in range(frng.choice([1, 1, 2, 3])):
        steps.append(frng.choice([["create", "fix"], list(CATS), ["trim"], ["fix"], [], ["create"], ["update"], [c for c in CATS if frng.random() < 0.5]]))
    zrng = sub(seed, "samesize")
    if zrng.random() < 0.3:
        # a repair that keeps the size of a file (one digit becomes another), followed by further sessions in the same directory:
        # what a later real session executes must be the rewritten source (bytecode caches are validated by mtime and size)
        a, b = zrng.sample(range(1, 10), 2)
        prog["files"].append({"name": "test_zsize.py", "header": {}, "sites": {"zs": {"op": "eq", "place": "direct", "arg": str(a), "prev": ["int", a]}},
                              "tests": [{"name": "test_samesize", "events": [{"t": "cmp", "eid": "ezs", "site": "zs", "vals": [["int", b]], "style": zrng.choice(["assert", "rec"])}]}]})
        steps = [zrng.choice([["fix"], ["create", "fix"]])] + steps[:2]
        if len(steps) < 2:
            steps.append(zrng.choice([[], ["trim"], ["fix"]]))
    # the developer's shell exports INLINE_SNAPSHOT_DEFAULT_FLAGS (the flags for sessions started without --inline-snapshot); every session of
    # this history names its flags explicitly, so all three executors still have to agree
    erng = sub(seed, "envflags")
    env_flags = erng.choice(["create", "fix", "trim", "create,fix", "update", "report", "create,fix,trim,update", "disable"]) if erng.random() < 0.3 else None
    # the project configures black: every executor formats what it writes with these options, whichever project was formatted before in the same process
    brng = sub(seed, "black-options")
    black = {"line-length": brng.choice([30, 40, 60, 120])} if brng.random() < 0.3 else None
    return {"program": prog, "steps": steps, "env_flags": env_flags, "black": black}


def has_norepr(prog):
    return any(n[0] == "norepr" for f in prog["files"] for t in f["tests"] for e in t["events"] for v in e.get("vals", []) for n in V.walk(v))


def execute(case, ctx):
    ctx.persistent = True  # plugin sessions of this history share one directory incl. __pycache__ (logical clock for mtimes, see sim.sync_tree)
    prog = case["program"]
    out = {"violations": [], "discards": {}, "abstract": []}

    def viol(clause, sig, detail):
        if not any(v["clause"] == clause and v["sig"] == sig for v in out["violations"]):
            out["violations"].append({"clause": clause, "sig": sig, "detail": detail})

    files, orders = P.render(prog, drivers.simlib_text())
    cur = {k: v for k, v in files.items()}
    if case.get("black"):
        import black as _black

        cur["pyproject.toml"] = sim.pyproject_for(black=case["black"])
        ctx.count("probe_project_with_black_options")
        # (the files are clean under the project's options, so that every rewrite formats the whole file)
        for k in list(cur):
            if k.startswith("test_"):
                try:
                    cur[k] = _black.format_str(cur[k], mode=_black.FileMode(line_length=case["black"]["line-length"]))
                except Exception:
                    pass
    for si, cats in enumerate(case["steps"]):
        flags = ",".join(["report"] + sorted(cats))
        tests_only = {k: v for k, v in cur.items() if k.startswith("test_")}
        # ---- executor 1: run_inline
        env = {"INLINE_SNAPSHOT_DEFAULT_FLAGS": case["env_flags"]} if case.get("env_flags") else None
        n1, r1 = sim.run_session(ctx, "inline", cur, {"flags": flags, "env": env, "with_pyproject": True})
        # ---- executor 2: the real plugin, forked
        n2, r2 = sim.run_session(ctx, "plugin", cur, {"flags": flags, "env": env})
        # ---- executor 3: run_pytest
        r3 = drivers.run_runpytest({k: (v.decode() if isinstance(v, bytes) else v) for k, v in cur.items()}, {"flags": flags, "env": env}, ctx.scratch)
        ctx.sessions += 1
        ctx.log.append({"run_pytest": r3.get("changed"), "rc": r3.get("rc"), "exc": r3.get("exc")})
        if not sim.session_completed("inline", r1) or not sim.session_completed("plugin", r2) or r3.get("status") != "ok" or r3.get("exc"):
            both = (not sim.session_completed("inline", r1)) == (not sim.session_completed("plugin", r2))
            out["discards"]["a-session-did-not-complete(C18)"] = out["discards"].get("a-session-did-not-complete(C18)", 0) + 1
            return out
        ctx.count("clauses_checked")
        f1 = {k: v.decode() for k, v in n1.items() if k.startswith("test_")}
        f2 = {k: v.decode() for k, v in n2.items() if k.startswith("test_")}
        f3 = {k: v for k, v in (r3.get("files") or {}).items() if k.startswith("test_")}
        raises = bool(r1.get("raises"))
        ops = sorted({s["op"] for f in prog["files"] for s in f["sites"].values()})
        out["abstract"].append(f"{'+'.join(sorted(cats))}|{'+'.join(ops)}|raises={raises}|step{si}")
        if f1 != tests_only or f2 != tests_only:
            ctx.count("steps_that_changed_files")
        for (na, fa), (nb, fb) in ((("run_inline", f1), ("plugin", f2)), (("run_pytest", f3), ("plugin", f2))):
            if fa != fb:
                fn = sorted(k for k in set(fa) | set(fb) if fa.get(k) != fb.get(k))[0]
                ta, tb = fa.get(fn, ""), fb.get(fn, "")
                only_import = tb.replace("\nfrom inline_snapshot import HasRepr\n", "", 1) == ta or tb.replace("from inline_snapshot import HasRepr\n", "", 1).replace("\n\n\n", "\n\n") == ta
                sig = f"{na}-differs-from-{nb}" + (":HasRepr-import-missing" if only_import and na == "run_inline" and "HasRepr(" in ta else "")
                viol("same-files", sig, f"step {si} flags={flags}: {fn} differs\n--- {na}\n{ta[:900]}\n--- {nb}\n{tb[:900]}")
        # ---- pending categories
        c1 = set(r1.get("categories") or []) - {"update"}
        c2 = set(drivers.report_categories(r2.get("out", ""))) - {"update"}
        if c1 != c2:
            viol("same-categories", "run_inline-and-plugin-report-different-categories", f"step {si} flags={flags}: run_inline {sorted(c1)}, plugin {sorted(c2)}\n{files[prog['files'][0]['name']][:900]}")
        cur = dict(cur)
        for k, v in n2.items():
            if k.startswith("test_"):
                cur[k] = v.decode()
    out["sample"] = {"steps": case["steps"], "file": files[prog["files"][0]["name"]][:600]}
    return out


def shrink(case):
    if len(case["steps"]) > 1:
        for i in range(len(case["steps"])):
            yield dict(case, steps=case["steps"][:i] + case["steps"][i + 1:])
    for p in W.shrink_program(case["program"]):
        yield dict(case, program=p)
    if case.get("env_flags"):
        yield dict(case, env_flags=None)
    if case.get("black"):
        yield dict(case, black=None)
