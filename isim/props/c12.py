"""C12 - every string is written as a literal that reads back identically.

Session(create) -> read-back, then a session with update approved (the literal must also be a fixed
point).  Simulator-owned dimension: the formatter state (black, absent, raising, format-command
stubs incl. 'requote' and narrow line lengths).  The rest is input enumeration (exhaustive up to
length 3 over a 12-symbol adversarial alphabet in the thorough tier) and seeded generation, and is
reported as such (weak leverage).
"""
import itertools

from ..gen import values as V
from ..prng import sub
from . import c01

ID = "C12"
PROBES = ['literals_checked', 'readbacks']  # reach probes: counters that must be non-zero in a run (a zero is printed and recorded)
LEVEL = "exploration"
BUDGET = {"quick": 1500, "thorough": 40000}
WALL = {"quick": 300, "thorough": 3400}
TECHNIQUE = "deterministic simulation: session(create) -> disabled read-back -> session(update) over a durable directory under simulated formatter states; exhaustive short strings + seeded long ones"
LEVEL_TEXT = ("thorough: every str over the 12-symbol core alphabet up to length 3 (1884 strings) is pushed through one placement each round-robin, plus "
              "seeded str / bytes up to 200 symbols over the full adversarial alphabet; every run crosses one formatter state; oracle: the literal found "
              "on disk evaluates to exactly the original (type included), the read-back passes, and a second session with update keeps the value")
LEVEL_NOTE = c01.LEVEL_NOTE
RULE = ("one run = 1-4 == sites whose value is a str / bytes as whole snapshot, list / tuple element, dict key, dict value, [key] child, constructor argument; "
        "formatter state in {black, absent, raising, cmd:black(line length 20-120, string normalisation on/off), cmd:requote, cmd:identity}; distinct = "
        "(string feature class, placement, formatter state); non-trivial = a string with a quote, backslash, control or non-ASCII character or a line end")
RULE += " Dimensions added while testing against seeded changes: locale encoding of the session (cp1252 / ascii / latin-1 / iso8859-15) for format-command runs through a fake subprocess that is faithful to text-mode pipes; CRLF projects; fix of existing literals."
ASSUMPTIONS = c01.ASSUMPTIONS[:2]
REAL_VS_STUB = c01.REAL_VS_STUB
EXHAUSTIVE = {"quick": False, "thorough": False}

PLACEMENTS = ["whole", "list", "tuple1", "dictval", "dictkey", "item", "call", "nested"]


def core_strings():
    out = [""]
    for n in (1, 2, 3):
        for t in itertools.product(V.CORE12, repeat=n):
            out.append("".join(t))
    return out


_CORE = None


def place(leaf, how):
    if how == "whole":
        return leaf
    if how == "list":
        return ["list", [["int", 1], leaf, leaf]]
    if how == "tuple1":
        return ["tuple", [leaf]]
    if how == "dictval":
        return ["dict", [[["str", "k"], leaf]]]
    if how == "dictkey":
        return ["dict", [[leaf, ["int", 1]]]]
    if how == "call":
        return ["dc", "DC", [["a", leaf], ["b", ["list", [leaf]]]]]
    if how == "nested":
        return ["list", [["dict", [[["int", 1], ["tuple", [leaf, ["none"]]]]]]]]
    return leaf


def rand_string(rng):
    r = rng.random()
    alpha = V.ADVERSARIAL
    n = rng.choice([0, 1, 2, 4, 8, 16, 40]) if r < 0.95 else rng.randint(100, 200)
    s = "".join(rng.choice(alpha) for _ in range(n))
    if rng.random() < 0.3:
        return ["bytes", "".join(c if ord(c) < 256 else "?" for c in s)]
    return ["str", s]


def draw_fmt(rng):
    return c01.with_locale(rng, _draw_fmt(rng))


def _draw_fmt(rng):
    r = rng.random()
    if r < 0.35:
        return {"kind": "black"}
    if r < 0.45:
        return {"kind": "absent"}
    if r < 0.52:
        return {"kind": "raises", "always": True}
    if r < 0.75:
        return {"kind": "cmd", "stub": "black", "mode": {"line_length": rng.choice([20, 30, 60, 88, 120]), "string_normalization": rng.random() < 0.6,
                                                        "magic_trailing_comma": rng.random() < 0.7}}
    if r < 0.92:
        return {"kind": "cmd", "stub": "requote", "mode": {"line_length": rng.choice([40, 88])}}
    return {"kind": "cmd", "stub": "identity"}


def generate(seed, tier="quick"):
    global _CORE
    i = seed % 10**6
    rng = sub(seed, "program")
    if _CORE is None:
        _CORE = core_strings()
    leaves = []
    if tier == "thorough" and i < len(_CORE):
        leaves.append(["str", _CORE[i]])
    elif rng.random() < 0.4:
        leaves.append(["str", _CORE[rng.randrange(len(_CORE))]])
    while len(leaves) < rng.randint(1, 4):
        leaves.append(rand_string(rng))
    sites, events = {}, []
    for k, leaf in enumerate(leaves):
        how = PLACEMENTS[(i + k) % len(PLACEMENTS)] if tier == "thorough" and i < len(_CORE) and k == 0 else rng.choice(PLACEMENTS)
        if how == "dictkey" and leaf[0] == "bytes" and False:
            how = "whole"
        sid = f"s{k + 1}"
        if how == "item":
            sites[sid] = {"op": "item", "place": "direct", "arg": None, "prev": None, "how": how}
            events.append({"t": "cmp", "eid": f"e{k + 1}", "site": sid, "vals": [leaf], "key": ["str", "key"] if leaf[0] == "bytes" or rng.random() < 0.5 else leaf,
                           "cop": "eq", "style": rng.choice(["assert", "rec"])})
        else:
            sites[sid] = {"op": "eq", "place": rng.choice(["direct", "direct", "func", "module", "helper_arg"]), "arg": None, "prev": None, "how": how}
            events.append({"t": "cmp", "eid": f"e{k + 1}", "site": sid, "vals": [place(leaf, how)], "style": rng.choice(["assert", "rec"]), "reflect": rng.random() < 0.2})
    prog = {"files": [{"name": "test_a.py", "header": {}, "sites": sites, "tests": [{"name": "test_t", "events": events}]}], "pyproject": None}
    driver = "plugin" if sub(seed, "driver").random() < 0.1 else "inline"
    flags = "create"
    prng2 = sub(seed, "previous")
    if prng2.random() < 0.35:
        # the literal replaces an existing one (fix), possibly with non-ASCII text in the old literal / left of it on the line
        flags = "create,fix"
        for k, (sid, s) in enumerate(sites.items()):
            leaf = leaves[k]
            if s["op"] == "eq" and ("'" in leaf[1] or '"' in leaf[1]) and prng2.random() < 0.5:
                # the old literal is the new string with the two quote characters exchanged (same shape, same length, another value)
                swapped = leaf[1].translate({ord("'"): '"', ord('"'): "'"})
                s["arg"] = V.expr(place([leaf[0], swapped], s["how"]))
            elif s["op"] == "eq" and prng2.random() < 0.7:
                s["arg"] = prng2.choice(['"old"', "'x'", '"日本語"', '"naïve café"', '["ä", "old"]', '{"größe": 1}', "b'old'", '""'])
        for e in events:
            if prng2.random() < 0.4 and sites[e["site"]]["op"] == "eq":
                e["uni"] = prng2.choice(["äöü", "日本", "é"])
    fmt = draw_fmt(sub(seed, "fmt"))
    wrng = sub(seed, "crlf")
    if wrng.random() < 0.12:
        # a project with windows line ends (file and, in half of the cases, a format-command that writes CRLF): real line ends inside
        # multi-line literals must still read back as "\n"
        prog["files"][0]["header"] = {"eol": "crlf"}
        if wrng.random() < 0.6:
            fmt = {"kind": "cmd", "stub": "black-crlf", "mode": {"line_length": wrng.choice([40, 88])}}
    return {"program": prog, "driver": driver, "fmt": fmt, "flags": flags, "strict": True, "second": "update", "allow_raises": True}


def execute(case, ctx):
    out = c01.execute(case, ctx)
    # distinct-state measure of this property: (string feature class, placement, formatter)
    abstract = []
    for f in case["program"]["files"]:
        for sid, s in f["sites"].items():
            for t in f["tests"]:
                for e in t["events"]:
                    if e.get("site") == sid:
                        for n in V.walk(e["vals"][0]):
                            if n[0] in ("str", "bytes"):
                                abstract.append(f"{V.type_path(['str', n[1]], 0) if n[0] == 'str' else 'bytes'}|{s.get('how')}|{c01.fmt_tag(case['fmt'])}")
                                break
    out["abstract"] = abstract
    return out


shrink = c01.shrink
