"""C05 - each category means what the documentation says.

Histories of sessions with arbitrary approved subsets (and edits of the observed data in between)
over the durable project directory, checked after every session against the executable reference
model (isim.model): value per call site, pending categories, create/fix/trim/update invariants.
"""
from .. import drivers, sim
from ..gen import program as P
from ..gen import values as V
from ..gen import workload as W
from ..model import MISSING, SessionModel, contains, meq, value_equal
from ..prng import sub
from .c01 import draw_fmt, fmt_tag

ID = "C05"
PROBES = ['probe_sessions', 'category_sets_compared', 'sites_judged']  # reach probes: counters that must be non-zero in a run (a zero is printed and recorded)
LEVEL = "exploration"
BUDGET = {"quick": 1200, "thorough": 30000}
WALL = {"quick": 240, "thorough": 3000}
TECHNIQUE = "deterministic simulation: seeded multi-session histories checked step by step against an executable reference model of the categories"
LEVEL_TEXT = ("seeded search over histories (1-4 sessions with arbitrary approved subsets, observation edits in between) of generated "
              "projects; after every session the values found on disk and the reported categories are compared with a ~200 line "
              "reference model written from the documentation; sampling, not proof")
LEVEL_NOTE = ("trusted: the reference model (isim/model.py), evaluation of argument texts in the simlib namespace, CPython == / <= on the "
              "generated value families; bounds are drawn from one totally ordered family per site; all events are non-aborting (rec style)")
RULE = ("one run = one history: project with 1-5 managed sites (==, <=, >=, in, [key] with sub-snapshots; previous value absent / tight / "
        "slack / wrong / subset / superset, hand-styled or tool-styled) and 1-4 sessions, each with a random approved subset of "
        "{create, fix, trim, update}; between sessions the observed data may change; distinct = (kind, src-class, pending set, approved set) "
        "tuples over judged sites; non-trivial = at least one site judged against the model")
RULE += " Dimensions added while testing against seeded changes: twin files, review-answer sessions, xfail tests, access-only keys, mutation tests; recorded values of another class with the same fields; a same-size fix followed by sessions that approve nothing / fix again."
ASSUMPTIONS = [
    "bound values come from one totally ordered family per site; values are copyable",
    "sites on which a comparison raised, or that contradict themselves, are exempt (counted as discards)",
    "'update' is text-level: the model does not predict it, only its invariants are checked (value unchanged)",
]
REAL_VS_STUB = {
    "real": ["inline_snapshot library / plugin from /repo/src", "Example.run_inline (bulk)", "pytest + plugin (sample)", "black", "fork per session"],
    "stub": ["the user (scripted flags and data edits)", "format-command stub / absent / failing black (injected formatter states)"],
}

CATS = ["create", "fix", "trim", "update"]
PREV = ["none", "none", "same", "tight", "other", "edit", "slack", "wrong", "subset", "superset", "disjoint"]


def generate(seed, tier="quick"):
    rng = sub(seed, "program")
    prof = V.draw_profile(sub(seed, "profile"))
    prof.special = [s for s in prof.special if s not in ("norepr",)]
    prog = W.gen_program(rng, prof, {"prev": PREV, "styles": ["rec"], "n_sites": (1, 5), "n_tests": (1, 3), "max_obs": 5, "idle": 0.25})
    arng = sub(seed, "access")
    n_acc = 0
    for f in prog["files"]:
        for sid, s in f["sites"].items():
            # a key of an existing dict sub-snapshot is fetched (s[key]) but nothing is compared with it in this session:
            # the key counts as accessed and must not be trimmed
            if s["op"] == "item" and s["prev"] is not None and s["place"] in ("func", "module", "lam"):
                used = [e["key"] for t in f["tests"] for e in t["events"] if e.get("site") == sid]
                spare = [k for k, _ in s["prev"][1] if not any(V._safe_eq(V.pyval(k), V.pyval(u)) for u in used)]
                if spare and arng.random() < 0.7:
                    n_acc += 1
                    arng.choice(f["tests"])["events"].append({"t": "cmp", "eid": f"acc{n_acc}", "site": sid, "key": arng.choice(spare), "access_only": True,
                                                              "vals": [["int", 0]], "style": "rec"})
    krng = sub(seed, "other-class")
    if krng.random() < 0.15:
        # the recorded value is an instance of one class, the observed one of ANOTHER class with the same fields: unequal whatever the fields hold
        f = prog["files"][0]
        a, b = krng.randint(0, 3), krng.randint(0, 3)
        old_t, new_t = krng.choice([(f"DCA(v={a})", f"DCB(v={b})"), (f"DCB(v={a}, w=1)", f"DCA(v={a}, w=1)"), (f"[DCA(v={a}), 1]", f"[DCB(v={a}), 1]"), (f"DCA(v=DCB(v={a}))", f"DCA(v=DCA(v={a}))")])
        f["sites"]["oc1"] = {"op": "eq", "place": krng.choice(["direct", "func"]), "arg": old_t, "prev": ["raw", old_t]}
        krng.choice(f["tests"])["events"].append({"t": "cmp", "eid": "eoc1", "site": "oc1", "vals": [["raw", new_t]], "style": "rec"})
    mrng = sub(seed, "mutation")
    if mrng.random() < 0.2:
        # one site observes the same object several times while the test mutates it in between
        W.add_mutation_test(mrng, prog["files"][0], ops=("le", "ge", "in", "eq"), prev=True)
    srng = sub(seed, "steps")
    steps = []
    for i in range(srng.randint(1, 4)):
        a = [c for c in CATS if srng.random() < 0.45]
        if srng.random() < 0.15:
            a = list(CATS)
        step = {"approved": a}
        if i > 0 and srng.random() < 0.5:
            step["edit_seed"] = srng.randint(0, 10**9)
        steps.append(step)
    wrng = sub(seed, "twin")
    if wrng.random() < 0.1 and len(prog["files"]) == 1:
        # a second module with the same text layout (same functions on the same lines) and other observed data: the categories of a site
        # are computed from its own observations only
        W.add_twin_file(prog, wrng, vary=True)
    driver = "plugin" if sub(seed, "driver").random() < 0.12 else "inline"
    xr = sub(seed, "xfail")
    if driver == "plugin" and xr.random() < 0.5:
        f = prog["files"][-1]
        t = f["tests"][-1] if xr.random() < 0.6 else xr.choice(f["tests"])
        t["xfail"] = True  # the last test of the session, or some test in between
    if driver == "plugin":
        # some sessions of the real plugin approve through the review prompts (answer yes exactly for the approved categories)
        rrng = sub(seed, "review")
        for st in steps:
            if rrng.random() < 0.4:
                st["review"] = True
    zrng = sub(seed, "samesize")
    if zrng.random() < 0.18:
        # a fix that keeps the size of the file (one digit becomes another), followed by sessions in the same directory that approve nothing / fix again:
        # what they report is computed from the rewritten source (the real plugin over one persistent directory with bytecode caches)
        driver = "plugin"
        a, b = zrng.sample(range(1, 10), 2)
        f = sorted(prog["files"], key=lambda f: f["name"])[0]
        op = zrng.choice(["eq", "le", "ge"])
        f["sites"]["zs"] = {"op": op, "place": "direct", "arg": str(a), "prev": ["int", a]}
        zrng.choice(f["tests"])["events"].append({"t": "cmp", "eid": "ezs", "site": "zs", "vals": [["int", b if op == "eq" else (max(a, b) if op == "le" else min(a, b))]], "style": "rec"})
        steps = [{"approved": ["fix"]}, {"approved": []}, {"approved": ["fix"]}]
    W.sprinkle_uni(prog, sub(seed, "uni"), 0.08)
    return {"program": prog, "steps": steps, "driver": driver, "fmt": draw_fmt(sub(seed, "fmt")),
            "profile": {"scalars": prof.scalars, "containers": prof.containers, "calls": prof.calls, "special": prof.special,
                        "alphabet": prof.alphabet, "max_depth": prof.max_depth, "max_len": prof.max_len, "str_len": prof.str_len},
            "probe": sub(seed, "probe").random() < (0.15 if tier == "quick" else 0.3)}


def apply_edit(prog, edit_seed, profile):
    """the user changes the observed data: new observation values for some sites (same operations)"""
    import random

    rng = random.Random(edit_seed)
    prof = V.Profile(**profile)
    for f in prog["files"]:
        for sid, s in f["sites"].items():
            if rng.random() < 0.5:
                continue
            evs = [e for t in f["tests"] for e in t["events"] if e.get("t") == "cmp" and e["site"] == sid]
            if not evs or any("var" in e for e in evs):
                continue
            if s["op"] == "item":
                for e in evs:
                    _, obs = W.gen_site(rng, prof, dict(W.DEFAULT, prev=["none"], max_obs=3), sid, op=e.get("cop", "eq"))
                    e["vals"] = obs["vals"]
            else:
                old = evs[0]["vals"][0]
                if s["op"] == "eq":
                    nv = W.mutate_value(rng, old, prof) if rng.random() < 0.7 else V.gen_value(rng, prof)
                    for e in evs:
                        e["vals"] = [nv] * len(e["vals"])
                elif s["op"] in ("le", "ge"):
                    fam = old[0] if old[0] in ("int", "float", "str", "tuple") else "int"
                    for e in evs:
                        e["vals"] = [V.gen_ordered(rng, prof, fam) for _ in e["vals"]]
                else:
                    for e in evs:
                        e["vals"] = [V.gen_value(rng, prof, 2) if rng.random() < 0.6 else v for v in e["vals"]]


def positional_call(arg_text):
    """does the argument contain a constructor call of a dataclass-like type written with positional arguments?"""
    import ast

    if not arg_text:
        return False
    try:
        tree = ast.parse("(\n" + arg_text + "\n)", mode="eval")
    except SyntaxError:
        return False
    names = {n.split(".")[-1] for n in V.CALL_TYPES}
    for n in ast.walk(tree):
        if isinstance(n, ast.Call) and n.args:
            f = n.func
            name = f.id if isinstance(f, ast.Name) else (f.attr if isinstance(f, ast.Attribute) else None)
            if name in names:
                return True
    return False


def src_class(src, kind, obs_model):
    if src is MISSING:
        return "missing"
    return "present"


def flags_for(driver, approved):
    if driver == "plugin":
        return ",".join(["report"] + sorted(approved))
    return ",".join(sorted(approved)) if approved else None


def _factories(obj, depth=0):
    """the default factories of all defaultdicts inside obj, in traversal order"""
    import collections

    out = []
    if depth > 6:
        return out
    if isinstance(obj, collections.defaultdict):
        out.append(obj.default_factory)
    if isinstance(obj, dict):
        for k, v in obj.items():
            out += _factories(k, depth + 1) + _factories(v, depth + 1)
    elif isinstance(obj, (list, tuple, set, frozenset)):
        for v in obj:
            out += _factories(v, depth + 1)
    elif hasattr(obj, "__dict__") and not isinstance(obj, type):
        for v in vars(obj).values():
            out += _factories(v, depth + 1)
    return out


def _other_factory(a, b):
    """a == b although they contain defaultdicts with different default factories (dict equality ignores the factory)"""
    try:
        fa, fb = _factories(a), _factories(b)
        return bool(fa or fb) and fa != fb and (a == b or True)
    except Exception:
        return False


def _site_other_factory(sm):
    if sm.kind is None:
        return False
    if any(_other_factory(sm.src, x) for x in sm.obs):
        return True
    return any(_site_other_factory(c) for c in getattr(sm, "_children", []))


def execute(case, ctx):
    ctx.persistent = True  # plugin sessions of this history share one directory incl. __pycache__ (logical clock for mtimes, see sim.sync_tree)
    import copy

    prog = copy.deepcopy(case["program"])
    driver, fmt = case["driver"], case["fmt"]
    out = {"violations": [], "discards": {}, "abstract": []}

    def discard(why, n=1):
        out["discards"][why] = out["discards"].get(why, 0) + n

    def viol(clause, sig, detail):
        if not any(v["clause"] == clause and v["sig"] == sig for v in out["violations"]):
            out["violations"].append({"clause": clause, "sig": sig, "detail": detail})

    files, orders = P.render(prog, drivers.simlib_text())
    if driver == "plugin":
        files["pyproject.toml"] = sim.pyproject_for(fmt)
    files = sim.to_bytes(files)
    sidx = W.site_index(prog)
    ops = {sid: s["op"] for sid, (f, s) in sidx.items()}
    for si, step in enumerate(case["steps"]):
        approved = set(step["approved"])
        # ---- the user edits the observed data (arguments are taken over from disk)
        if step.get("edit_seed") is not None:
            try:
                smap = sim.site_map(sim.to_text(files), orders)
            except SyntaxError:
                discard("file-unparsable-before-edit")
                return out
            for (fn, sid), call in smap.items():
                sidx[sid][1]["arg"] = call.arg_text
            apply_edit(prog, step["edit_seed"], case["profile"])
            nf, orders = P.render(prog, drivers.simlib_text())
            for k, v in nf.items():
                if k.startswith("test_"):
                    files[k] = v.encode("utf-8")
        # ---- src values from disk
        try:
            smap = sim.site_map(sim.to_text(files), orders)
        except SyntaxError:
            discard("file-unparsable-before-session")
            return out
        src = {}
        bad_src = set()
        for (fn, sid), call in smap.items():
            if call.arg_text is None:
                src[sid] = MISSING
            else:
                try:
                    src[sid] = P.eval_arg(call.arg_text)
                except Exception:
                    src[sid] = MISSING
                    bad_src.add(sid)
        for sid in ops:
            src.setdefault(sid, MISSING)
        xfail_tests = {(f["name"], t["name"]) for f in prog["files"] for t in f["tests"] if t.get("xfail")} if driver == "plugin" else set()
        if xfail_tests:
            ctx.count("probe_xfail_test_in_history")
        # comparisons inside xfail tests run against a private inactive state: they are not observations of the session
        # (a snapshot() evaluated at import time belongs to the session even when an xfail test compares with it)
        places = {(f["name"], sid): s["place"] for f in prog["files"] for sid, s in f["sites"].items()}
        events = [ev for ev in W.events_in_order(prog) if (ev[0], ev[1]) not in xfail_tests or places.get((ev[0], ev[2].get("site"))) == "module"]
        m = SessionModel(src, ops, approved).run(events, V.pyval)
        spec = {"flags": flags_for(driver, approved), "fmt": fmt}
        if step.get("review") and driver == "plugin":
            spec = {"flags": "review", "answers": {c: c in approved for c in CATS}, "fmt": fmt}
            ctx.count("probe_session_approved_through_review_answers")
        new, res = sim.run_session(ctx, driver, files, spec)
        if not sim.session_completed(driver, res):
            if approved:
                out["violations"].append(sim.completion_violation(driver, res, f"step {si} approved={sorted(approved)}"))
            else:
                discard("session-did-not-complete(C18)")
            return out
        if driver == "inline" and res.get("raises"):
            discard("test-raised")
            return out
        srec = sim.rec_by_eid(res.get("rec", []))
        exempt = set(bad_src)
        for fn, tn, e in events:
            if e.get("t") == "cmp":
                if any(isinstance(a, str) for a in srec.get(e["eid"], [])):
                    exempt.add(e["site"])
                if any(isinstance(a, str) for a in m.answers.get(e["eid"], [])):
                    exempt.add(e["site"])
        for sid, sm in m.sites.items():
            if sm.exempt():
                exempt.add(sid)
        try:
            nmap = sim.site_map(sim.to_text(new), orders)
        except SyntaxError as ex:
            viol("parse", "unparsable-after-session", f"step {si} approved={sorted(approved)}: {ex}")
            return out
        ctx.count("clauses_checked")
        any_exempt = bool(exempt & m.reached) or bool(bad_src)
        # ---- clause (a): value per site = model value
        for (fn, sid), call in nmap.items():
            sm = m.sites[sid]
            if sid in exempt:
                discard("site-exempt")
                continue
            if sm.kind is None:
                # never compared in this session: the value must not change (only 'update' may touch the text)
                want = src[sid]
            else:
                try:
                    want = sm.after(approved)
                except Exception:
                    discard("model-could-not-aggregate")
                    continue
            if call.arg_text is None:
                got = MISSING
            else:
                try:
                    got = P.eval_arg(call.arg_text)
                except Exception as ex:
                    viol("value", f"argument-does-not-evaluate:{ops[sid]}", f"step {si} site {sid}: {call.arg_text!r:.300}: {type(ex).__name__}: {ex}")
                    continue
            ctx.count("sites_judged")
            pend = sorted(sm.pending()) if sm.kind is not None else []
            out["abstract"].append(f"{sm.kind}|{'missing' if src[sid] is MISSING else 'present'}|{'+'.join(pend)}|{'+'.join(sorted(approved))}")
            if not value_equal(sm.kind, got, want):
                viol("value", f"{sm.kind}:pending={'+'.join(pend)}:approved={'+'.join(sorted(approved & set(pend)))}",
                     f"step {si} driver={driver} fmt={fmt_tag(fmt)} site {sid} op={ops[sid]} approved={sorted(approved)} pending(model)={pend}\n"
                     f"  before: {smap[(fn, sid)].arg_text!r:.300}\n  observed: {[repr(x)[:80] for x in sm.obs][:6]}\n"
                     f"  expected value: {want!r:.300}\n  found: {call.arg_text!r:.300}")
                continue
            # ---- direct clauses, independent of the model's after():
            if sm.kind in ("eq", "le", "ge", "in") and got is not MISSING:
                holds_all = True
                for x in sm.obs:
                    try:
                        h = SiteHolds(sm.kind, got, x)
                    except Exception:
                        h = None
                    if h is False:
                        holds_all = False
                if (("fix" in approved and src[sid] is not MISSING) or ("create" in approved and src[sid] is MISSING)) and not holds_all:
                    viol("fix-holds", f"{sm.kind}:comparison-fails-after-approved-repair", f"step {si} site {sid}: {call.arg_text!r:.300}")
        # ---- clause (b): categories reported for the session
        if not any_exempt:
            want_c = set()
            for sid, sm in m.sites.items():
                want_c |= sm.pending()
            if driver == "inline":
                got_c = set(res.get("categories") or []) - {"update"}
            else:
                got_c = set(drivers.report_categories(res.get("out", ""))) - {"update"}
            ctx.count("category_sets_compared")
            if got_c != want_c:
                sig = f"reported={'+'.join(sorted(got_c))}:model={'+'.join(sorted(want_c))}"
                if got_c - want_c == {"fix"} and not (want_c - got_c) and any(positional_call(c.arg_text) for c in smap.values()):
                    # narrow signature of the listed finding
                    sig = "fix-reported-for-unchanged-positional-constructor-argument"
                elif got_c - want_c == {"fix"} and not (want_c - got_c) and any(_site_other_factory(sm) for sm in m.sites.values()):
                    # narrow signature of the listed finding: an equal defaultdict whose default_factory differs
                    sig = "fix-reported-for-equal-defaultdict-with-another-default-factory"
                viol("categories", sig,
                     f"step {si} driver={driver} approved={sorted(approved)}: reported {sorted(got_c)} but the model says {sorted(want_c)}\n"
                     + "\n".join(f"  {sid} {sm.kind} src={src[sid]!r:.100} obs={[repr(x)[:40] for x in sm.obs][:5]} pending={sorted(sm.pending())}"
                                 for sid, sm in m.sites.items() if sm.kind is not None))
            # ---- per-site pending, observed black-box by single-category probe sessions on a copy
            if case.get("probe") and driver == "inline":
                for c in ["create", "fix", "trim"]:
                    pnew, pres = sim.run_session(ctx, "inline", files, {"flags": c, "fmt": fmt})
                    if not sim.session_completed("inline", pres) or pres.get("raises"):
                        continue
                    try:
                        pmap = sim.site_map(sim.to_text(pnew), orders)
                    except SyntaxError:
                        continue
                    ctx.count("probe_sessions")
                    for (fn, sid), call in pmap.items():
                        sm = m.sites[sid]
                        before = smap[(fn, sid)].arg_text
                        try:
                            changed = not value_equal(sm.kind, MISSING if call.arg_text is None else P.eval_arg(call.arg_text),
                                                      MISSING if before is None else P.eval_arg(before))
                        except Exception:
                            continue
                        want_changed = sm.kind is not None and c in sm.pending()
                        if changed != want_changed:
                            viol("pending-per-site", f"{sm.kind}:{c}:{'changed' if changed else 'unchanged'}",
                                 f"step {si} probe A={{{c}}} site {sid}: value {'changed' if changed else 'did not change'} but model pending={sorted(sm.pending())}\n"
                                 f"  before {before!r:.200}\n  after {call.arg_text!r:.200}")
        files = new
    if ctx.stats.get("sites_judged"):
        out["sample"] = {"driver": driver, "steps": case["steps"], "final_file": sim.to_text(files).get("test_a.py", "")[:500]}
    return out


def SiteHolds(kind, src, x):
    if kind == "eq":
        return bool(x == src)
    if kind == "le":
        return bool(x <= src)
    if kind == "ge":
        return bool(x >= src)
    if kind == "in":
        return bool(x in src)


def shrink(case):
    if len(case["steps"]) > 1:
        for i in range(len(case["steps"])):
            c = dict(case, steps=case["steps"][:i] + case["steps"][i + 1:])
            yield c
    for i, s in enumerate(case["steps"]):
        if s.get("edit_seed") is not None:
            ns = [dict(x) for x in case["steps"]]
            del ns[i]["edit_seed"]
            yield dict(case, steps=ns)
        for c in s["approved"]:
            ns = [dict(x) for x in case["steps"]]
            ns[i]["approved"] = [a for a in s["approved"] if a != c]
            yield dict(case, steps=ns)
    for p in W.shrink_program(case["program"]):
        yield dict(case, program=p)
    if case["fmt"]["kind"] != "black":
        yield dict(case, fmt={"kind": "black"})
    if case.get("probe"):
        yield dict(case, probe=False)
