#!/bin/bash
# all quick checks under one VERIF_SEED, no evidence written (regression of the unchanged tree under arbitrary seeds)
# usage: all_quick_seed.sh <seed>
cd "$(dirname "$0")/.."
for p in $(/venv/bin/python -c "import json;print(' '.join(c['property_id'] for c in json.load(open('MANIFEST.json'))['checks']))"); do
  s=$(date +%s)
  out=$(VERIF_SEED=$1 /venv/bin/python -m isim check $p --tier quick --no-evidence 2>&1)
  rc=$?
  echo "seed=$1 $p rc=$rc $(( $(date +%s) - s ))s :: $(echo "$out" | grep -E "^$p:" | tail -1)"
  echo "$out" | grep -E "^VIOLATION|^HARNESS|^WARNING|^  clause" | cut -c1-260
done
