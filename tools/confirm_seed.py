#!/usr/bin/env python3
"""confirm a seeded change in a scratch worktree: patch applies, demo fails with it and passes without, pinned suite unchanged.
usage: confirm_seed.py <seeded-name> <worktree>   (writes /verif/seeded/<name>/confirm.json)"""
import json, os, subprocess, sys, tempfile
import xml.etree.ElementTree as ET

name, wt = sys.argv[1], sys.argv[2]
d = f"/verif/seeded/{name}"
env = dict(os.environ, PYTHONPATH=f"{wt}/src", PYTHONDONTWRITEBYTECODE="1")
def sh(cmd, **kw):
    return subprocess.run(cmd, shell=True, cwd=wt, env=env, capture_output=True, text=True, **kw)
res = {"name": name}
sh("git checkout -- . && git clean -fdq src tests")
demo = [f for f in os.listdir(d) if f.startswith("demo") and f.endswith(".py")][0]
# the demo is run from <worktree>/SEEDED/ (where the sub-agent wrote it: some demos locate src/ relative to their own path)
import shutil
os.makedirs(f"{wt}/SEEDED", exist_ok=True)
shutil.copy(f"{d}/{demo}", f"{wt}/SEEDED/{demo}")
def run_demo():
    if demo.startswith("demo_test") or demo.endswith("_test.py"):
        p = sh(f"/venv/bin/python -m pytest -q -p no:cacheprovider {wt}/SEEDED/{demo}", timeout=900)
    else:
        p = sh(f"/venv/bin/python {wt}/SEEDED/{demo}", timeout=900)
    return p.returncode, (p.stdout + p.stderr)[-800:]
res["demo_without_patch_rc"], res["demo_without_patch_tail"] = run_demo()
p = sh(f"git apply {d}/patch.diff")
res["patch_applies"] = p.returncode == 0
chk = sh("/venv/bin/python -c 'import inline_snapshot;print(inline_snapshot.__file__)'")
res["imports_from"] = chk.stdout.strip()
res["demo_with_patch_rc"], res["demo_with_patch_tail"] = run_demo()
base = json.load(open("/root/.vp/BASELINE.json"))
with tempfile.TemporaryDirectory(dir="/dev/shm") as td:
    xml = os.path.join(td, "r.xml")
    sh(f"/venv/bin/python -m pytest -ra -q -p no:cacheprovider --timeout=900 --continue-on-collection-errors --junitxml={xml}", timeout=3000)
    passed = set()
    for tc in ET.parse(xml).getroot().iter("testcase"):
        if not any(c.tag in ("failure", "error", "skipped") for c in tc):
            passed.add(f"{tc.get('classname')}::{tc.get('name')}")
missing = [t for t in base["stable_pass"] if t not in passed]
res["suite_stable_pass_with_patch"] = len(base["stable_pass"]) - len(missing)
res["suite_not_passing_with_patch"] = missing[:10]
sh("git checkout -- . && git clean -fdq src tests")
res["confirmed"] = bool(res["patch_applies"] and res["demo_without_patch_rc"] == 0 and res["demo_with_patch_rc"] != 0 and not missing and wt in res["imports_from"])
json.dump(res, open(f"{d}/confirm.json", "w"), indent=1)
print(name, "CONFIRMED" if res["confirmed"] else "NOT CONFIRMED", res["demo_without_patch_rc"], res["demo_with_patch_rc"], res["suite_stable_pass_with_patch"])
