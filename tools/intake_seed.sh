#!/bin/bash
# usage: intake_seed.sh <PROP> <round-suffix e.g. a8> <worktree>
# copies <worktree>/SEEDED/{patch.diff,demo*.py,notes.md} to /verif/seeded/<PROP>-<round>/ and confirms it there (tools/confirm_seed.py)
set -u
p=$1; r=$2; wt=$3
d=/verif/seeded/$p-$r
mkdir -p $d
cp $wt/SEEDED/patch.diff $d/ || exit 3
cp $wt/SEEDED/notes.md $d/ 2>/dev/null
for f in $wt/SEEDED/demo*.py; do cp $f $d/; done
git -C $wt checkout -q -- . 2>/dev/null
/venv/bin/python /verif/tools/confirm_seed.py $p-$r $wt
