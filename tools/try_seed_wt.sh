#!/bin/bash
# usage: try_seed_wt.sh <seeded-dir-name> <PROP> [count]
# like try_seed.sh but never touches /repo: the seeded change is applied in a scratch worktree of /repo's HEAD and the check is pointed
# at it with VERIF_REPO + PYTHONPATH (the harness asserts that inline_snapshot is imported from there).  The worktree is removed afterwards.
set -u
d=/verif/seeded/$1
prop=$2
count=${3:-}
wt=/tmp/ts-$1-$$
git -C /repo worktree add -q --detach $wt HEAD || exit 3
trap 'git -C /repo worktree remove --force '$wt' 2>/dev/null' EXIT
git -C $wt apply "$d/patch.diff" || { echo "patch does not apply"; exit 3; }
cd /verif
if [ -n "$count" ]; then extra="--count $count"; else extra=""; fi
VERIF_REPO=$wt PYTHONPATH=$wt/src timeout 2400 /venv/bin/python -m isim check $prop --no-evidence $extra 2>&1 | grep -A8 -E "^VIOLATION|^KNOWN|^$prop|HARNESS" | cut -c1-300 | head -${LINES_MAX:-60}
echo "exit=${PIPESTATUS[0]}"
