#!/usr/bin/env python3
"""print the prompt handed to an independent sub-agent for one property (only the property text + a scratch worktree)"""
import json, sys
pid = sys.argv[1]
wt = sys.argv[2]
variant = sys.argv[3] if len(sys.argv) > 3 else ""
for l in open("/verif/properties.jsonl"):
    p = json.loads(l)
    if p["id"] == pid:
        break
print(f"""You are helping to evaluate a verification effort for the open-source Python project 15r10nk/inline-snapshot
(a pytest plugin that records expected values and rewrites test source in place).

You work ONLY inside this scratch git worktree of the project: {wt}
Do not read or write anything under /verif or /repo (other worktrees under /tmp are not yours either). No network is available.

To run the project's tests against YOUR worktree (the installed package is an editable install that points elsewhere,
so PYTHONPATH is mandatory):
    cd {wt} && PYTHONPATH={wt}/src /venv/bin/python -m pytest -q -p no:cacheprovider -x -q tests/
(the full suite takes about 2-3 minutes; 56 tests that need a `pytest` executable on PATH fail also on the untouched
tree - ignore exactly those, i.e. compare against a run on the untouched worktree: save its list of failures first).
Always check `PYTHONPATH={wt}/src /venv/bin/python -c "import inline_snapshot; print(inline_snapshot.__file__)"` prints a path in your worktree.

Here is a semantic property that the project is supposed to satisfy (JSON record):

{json.dumps(p, indent=1, ensure_ascii=False)}

YOUR TASK: produce a realistic change (a bug a maintainer could plausibly introduce - a refactoring slip, a wrong
condition, a dropped call, a swapped argument, a missing case, an ordering change ...) to the project's source under
{wt}/src that BREAKS this property while
  (a) the package still imports/compiles,
  (b) every test of the existing suite that passes on the untouched worktree still passes with your change
      (you must actually run the suite and confirm), and
  (c) ordinary use would not expose it at once: it must need something specific to manifest - a particular
      interleaving or order of tests/evaluations, a crash or fault at a particular point, a multi-step sequence
      of sessions, an unusual but valid input, a particular configuration, or two cooperating sites that each
      look fine alone. {variant}
Do not edit the tests. Do not make a change that merely removes the whole feature.

Deliver, in {wt}/SEEDED/ :
  - patch.diff        : `git diff` of your change to src/ (only src/), applicable with `git apply` on the untouched tree
  - demo.py (or demo_test.py) : a small stand-alone demonstration (a script or a pytest test, runnable with the
      PYTHONPATH convention above; it may create temp dirs, run `{{sys.executable}} -m pytest` subprocesses, use
      inline_snapshot.testing.Example, etc.) that FAILS (non-zero exit) with your change and PASSES (exit 0) on the untouched tree
  - notes.md          : which behaviour is broken, what exactly is needed for it to manifest, and the commands you ran
      (suite result before/after, demo result before/after).
Finally leave the worktree with your change REVERTED in src/ (git checkout -- src) so that only SEEDED/ remains as
untracked content, and reply with a short summary (what you changed, how it manifests).
""")
