#!/usr/bin/env python3
"""Regenerate /verif/MANIFEST.json from the property modules that exist (so it is valid at all times)."""
import importlib
import json
import os
import sys

VERIF = os.path.dirname(os.path.dirname(os.path.abspath(__file__)))
sys.path.insert(0, VERIF)

NOT_APPLICABLE = {
    "C10": "pure function of (container text, observed value, approved set) in one fault-free session: no schedule, session history, "
           "fault or environment seam enters it, so deterministic simulation has nothing to own (DESIGN 6); regressions that also break "
           "read-back or crash session-finish surface in C02/C14/C18",
    "C11": "property of the alignment function and verbatim token survival for one (old display, new value) pair - a pure function of "
           "its input; deciding it would be input generation dressed as simulation (DESIGN 6)",
}
PENDING = "check not built yet in this commit (planned: DESIGN 4)"

checks = []
na = []
props = [json.loads(l) for l in open(os.path.join(VERIF, "properties.jsonl"))]
for p in props:
    pid = p["id"]
    if pid in NOT_APPLICABLE:
        na.append({"property_id": pid, "reason": NOT_APPLICABLE[pid]})
        continue
    path = os.path.join(VERIF, "isim", "props", pid.lower() + ".py")
    if not os.path.exists(path):
        na.append({"property_id": pid, "reason": PENDING})
        continue
    mod = importlib.import_module(f"isim.props.{pid.lower()}")
    checks.append({
        "property_id": pid,
        "quick_cmd": f"/venv/bin/python -m isim check {pid} --tier quick",
        "thorough_cmd": f"/venv/bin/python -m isim check {pid} --tier thorough",
        "evidence_file": f"evidence/{pid}.json",
        "replay_cmd_template": "/venv/bin/python -m isim replay {path}",
        "engine": "isim",
        "level_claimed": {"category": mod.LEVEL, "text": mod.LEVEL_TEXT, "design_ref": f"DESIGN.md 4/{pid}"},
        "level_note": mod.LEVEL_NOTE,
        "technique": mod.TECHNIQUE,
    })

manifest = {
    "version": 1,
    "setup_cmd": "/venv/bin/python -m isim setup",
    "hooks": {
        "guard": "INLINE_SNAPSHOT_VERIF",
        "enable": "no hook exists in /repo: every seam is a Python-level interception installed by the harness inside the forked "
                  "session process (pathlib / os / open / black / subprocess / rich.prompt), so /repo is exercised as shipped; "
                  "the guard name is recorded only because the schema asks for one",
        "baseline_off_cmd": "/venv/bin/python /verif/tools/baseline.py",
        "source_commits": [],
        "add_only": True,
    },
    "engines": [{
        "name": "isim",
        "path": "isim/",
        "serves_properties": [c["property_id"] for c in checks],
        "kind_free_text": "deterministic simulation with fault injection: seeded generator of test projects and multi-session histories, "
                          "one forked process per simulated session over a tmpfs project directory, seams on file / storage / formatter / "
                          "prompt / environment calls with fault plans (crash, errno, short write, formatter failures), reference model "
                          "and history oracles, ddmin minimiser, replay files",
    }],
    "checks": checks,
    "not_applicable": na,
    "notes": "All checks: cwd=/verif, honour VERIF_SEED / VERIF_TIER / VERIF_JOBS / VERIF_COUNT; exit 0 held, exit 1 + VIOLATION line, "
             "exit 2 harness error (never disguised as pass or violation). Known findings: /verif/known_findings.json. "
             "fix: commits in /repo are listed there as 'fixed'.",
}
with open(os.path.join(VERIF, "MANIFEST.json"), "w") as f:
    json.dump(manifest, f, indent=1)
    f.write("\n")
print(f"MANIFEST.json: {len(checks)} checks, {len(na)} not claimed")
