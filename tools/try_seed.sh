#!/bin/bash
# usage: try_seed.sh <seeded-dir-name> <PROP> [count]   -- apply a seeded change to /repo, run the check, undo it straight afterwards
set -u
d=/verif/seeded/$1
prop=$2
count=${3:-}
cd /repo || exit 3
if [ -n "$(git status --porcelain)" ]; then echo "/repo not clean"; exit 3; fi
git apply "$d/patch.diff" || { echo "patch does not apply"; exit 3; }
trap 'git -C /repo checkout -- . ; git -C /repo status --porcelain' EXIT
cd /verif
if [ -n "$count" ]; then extra="--count $count"; else extra=""; fi
timeout 1800 /venv/bin/python -m isim check $prop --no-evidence $extra 2>&1 | grep -A8 -E "^VIOLATION|^KNOWN|^$prop|HARNESS" | cut -c1-300 | head -${LINES_MAX:-60}
echo "exit=${PIPESTATUS[0]}"
