#!/bin/bash
# run each seeded change against the check of its property (and extra checks given as "<seed>:<PROP>" args), print caught / missed
cd /verif
pairs="$@"
if [ -z "$pairs" ]; then
  for d in seeded/*/; do n=$(basename $d); p=${n%%-*}; pairs="$pairs $n:$p"; done
fi
for pr in $pairs; do
  n=${pr%%:*}; p=${pr##*:}
  s=$(date +%s)
  out=$(LINES_MAX=400 tools/try_seed_wt.sh $n $p 2>&1)
  rc=$(echo "$out" | grep -o "exit=[0-9]*" | tail -1)
  nv=$(echo "$out" | grep -c "^VIOLATION")
  echo "$n vs $p: $rc violations=$nv $(( $(date +%s) - s ))s :: $(echo "$out" | grep -E "^  clause=" | head -2 | cut -c1-160 | tr '\n' ' ')"
done
