#!/usr/bin/env python3
"""Run the repository's pinned test suite (guard off - there is no guard, no hook in /repo) and compare with BASELINE.json."""
import json
import os
import subprocess
import sys
import tempfile
import xml.etree.ElementTree as ET

base = json.load(open("/root/.vp/BASELINE.json"))
with tempfile.TemporaryDirectory(dir="/dev/shm" if os.path.isdir("/dev/shm") else None) as d:
    xml = os.path.join(d, "r.xml")
    env = {k: v for k, v in os.environ.items() if not k.startswith("INLINE_SNAPSHOT_VERIF")}
    subprocess.run(["/venv/bin/python", "-m", "pytest", "-ra", "-q", "-p", "no:cacheprovider", "--timeout=900",
                    "--continue-on-collection-errors", f"--junitxml={xml}"], cwd="/repo", env=env,
                   stdout=subprocess.DEVNULL, stderr=subprocess.DEVNULL)
    passed = set()
    for tc in ET.parse(xml).getroot().iter("testcase"):
        if not any(c.tag in ("failure", "error", "skipped") for c in tc):
            passed.add(f"{tc.get('classname')}::{tc.get('name')}")
missing = [t for t in base["stable_pass"] if t not in passed]
print(f"baseline: {len(base['stable_pass']) - len(missing)}/{len(base['stable_pass'])} stable tests pass")
for t in missing[:20]:
    print("  NOT PASSING:", t)
sys.exit(1 if missing else 0)
