#!/bin/bash
# run every registered quick check once (writes evidence), print one summary line each
cd /verif
for p in $(/venv/bin/python -c "import json;print(' '.join(c['property_id'] for c in json.load(open('MANIFEST.json'))['checks']))"); do
  s=$(date +%s)
  out=$(/venv/bin/python -m isim check $p --tier quick 2>&1)
  rc=$?
  echo "$p rc=$rc $(( $(date +%s) - s ))s :: $(echo "$out" | grep -E "^$p:" | tail -1)"
  echo "$out" | grep -E "^VIOLATION|^HARNESS|^KNOWN|^WARNING" | cut -c1-220
done
